"""Independent grammar of GFA1/GFA2 field datatypes, written from the
specifications (GFA1: github.com/GFA-spec/GFA-spec GFA1.md; GFA2: GFA2.md), not
from gfapy.  Every entry is a regular expression with *fullmatch* semantics
(the whole field, nothing before or after -- in particular no trailing
newline), plus an optional extra predicate for the few non-regular rules.

Integers: GFA1 writes signed integers as [-+]?[0-9]+ ; GFA2 as -?[0-9]+ .  gfapy
uses one datatype for both; the GFA1 (larger) reading is taken so that nothing
more is demanded than the specifications state."""
import re

NAME1 = r"[!-)+-<>-~][!-~]*"              # GFA1 segment / path name
ID2 = r"[!-~]+"                           # GFA2 identifier
CIGAR1 = r"(?:[0-9]+[MIDNSHPX=])+"
CIGAR2 = r"(?:[0-9]+[MDIP])+"
TRACE = r"[0-9]+(?:,[0-9]+)*"
FLOAT = r"[-+]?[0-9]*\.?[0-9]+(?:[eE][-+]?[0-9]+)?"
INT = r"[-+]?[0-9]+"

GRAMMAR = {
  # tag datatypes
  "A": r"[!-~]",
  "i": INT,
  "f": FLOAT,
  "Z": r"[ !-~]+",
  "J": r"[ !-~]+",                        # (and must be JSON: extra predicate)
  "H": r"[0-9A-F]+",
  "B": r"(?:f(?:," + FLOAT + r")+|[CSI](?:,\+?[0-9]+)+|[csi](?:," + INT + r")+)",
  # GFA1 positional datatypes
  "segment_name_gfa1": NAME1,             # (and no '+,' / '-,' inside: extra predicate)
  "path_name_gfa1": NAME1,
  "sequence_gfa1": r"\*|[A-Za-z=.]+",
  "orientation": r"[+-]",
  "alignment_gfa1": r"\*|" + CIGAR1,
  "alignment_list_gfa1": r"(?:\*|" + CIGAR1 + r")(?:,(?:\*|" + CIGAR1 + r"))*",
  "oriented_identifier_list_gfa1": NAME1 + r"[+-](?:," + NAME1 + r"[+-])*",
  "position_gfa1": r"[0-9]+",
  # GFA2 positional datatypes
  "identifier_gfa2": ID2,
  "optional_identifier_gfa2": ID2,        # '*' is an identifier-shaped placeholder
  "oriented_identifier_gfa2": ID2 + r"[+-]",
  "identifier_list_gfa2": ID2 + r"(?: " + ID2 + r")*",
  "oriented_identifier_list_gfa2": ID2 + r"[+-](?: " + ID2 + r"[+-])*",
  "position_gfa2": r"[0-9]+\$?",
  "optional_integer": r"\*|" + INT,
  "sequence_gfa2": r"[!-~]+",
  "alignment_gfa2": r"\*|" + TRACE + r"|" + CIGAR2,
  "custom_record_type": r"[!-~]+",        # (and not a predefined record type: extra predicate)
  "generic": r"[^\t\n]*",
  "comment": r"[^\n]*",
}

RESERVED_RECORD_TYPES = ["E", "G", "F", "O", "U", "H", "#", "S"]

def extra_ok(datatype, s):
  """non-regular side conditions"""
  if datatype == "segment_name_gfa1":
    return re.search(r"[+-],", s) is None
  if datatype == "custom_record_type":
    return s not in RESERVED_RECORD_TYPES
  if datatype == "J":
    import json
    try:
      v = json.loads(s)
    except ValueError:
      return False
    return isinstance(v, (list, dict))
  return True

def accepts(datatype, s):
  return re.fullmatch(GRAMMAR[datatype], s) is not None and extra_ok(datatype, s)

TAG = r"[A-Za-z][A-Za-z0-9]:[AifZJHB]:.+"   # tag syntax NN:T:VALUE (value checked per datatype)
