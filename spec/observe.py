"""Observation of a Gfa and the closure/symmetry/ownership invariant (C02).

Written against gfapy's *documented* object model only (reference fields hold
lines while connected, back-reference collections per key, line.gfa, Gfa.line).
Everything here runs on realised (concrete) objects; harnesses call it inside
NoTracing().
"""
import re
import gfapy

INV = {"+": "-", "-": "+"}
# reference fields per record type (property C02 'observe_at'); path.links is
# the one non-field forward reference
REF_FIELDS = {"L": ["from_segment", "to_segment"], "C": ["from_segment", "to_segment"],
              "E": ["sid1", "sid2"], "G": ["sid1", "sid2"], "F": ["sid"],
              "O": ["items"], "U": ["items"], "P": ["segment_names"]}

def ref_fields(l):
  return REF_FIELDS.get(l.record_type, [])
_OP = re.compile(r"([0-9]+)([MIDNSHPX=])")


def cigar_complement_text(c):
  """complement of a CIGAR given as text: reversed, I<->D (S/N outside C12)"""
  if c == "*":
    return c
  ops = _OP.findall(c)
  sw = {"I": "D", "D": "I"}
  return "".join(n + sw.get(k, k) for (n, k) in reversed(ops))


def canon_text(t):
  """canonical text of one written line: an L line is identified with its
  complement (the lexicographically smaller of the two spellings is kept)."""
  f = t.split("\t")
  if f[0] == "L" and len(f) >= 6 and f[2] in INV and f[4] in INV:
    a = [f[1], f[2], f[3], f[4], f[5]]
    b = [f[3], INV[f[4]], f[1], INV[f[2]], cigar_complement_text(f[5])]
    if b < a:
      f[1:6] = b
  return "\t".join(f)


def canon_doc(text_or_lines):
  ls = text_or_lines.split("\n") if isinstance(text_or_lines, str) else list(text_or_lines)
  return sorted(canon_text(l) for l in ls if l != "")


def _name_of(x):
  if isinstance(x, gfapy.OrientedLine):
    return _name_of(x.line) + x.orient
  if isinstance(x, gfapy.Line):
    if x.record_type in ("L", "C") or gfapy.is_placeholder(x.get("name") if x.record_type not in "LC" else "*"):
      return "<" + canon_text(line_text(x)) + ">"
    return str(x.name)
  return "str:" + str(x)


def line_text(l):
  """written form of a line without the commentary gfapy adds to placeholders"""
  t = str(l)
  if t.endswith("\tco:Z:GFAPY_virtual_line"):
    t = t[:-len("\tco:Z:GFAPY_virtual_line")]
  return t


def _key(l):
  """identity of a line in an observation: its canonical written text"""
  return canon_text(line_text(l))


def all_lines(g):
  """g.lines plus virtual lines (g.lines lists them too as they are registered)."""
  return list(g.lines)


def observe(g, with_refs=True):
  """Everything observable through the public API, order-free."""
  lines = all_lines(g)
  obs = {
    "version": g.version,
    "lines": sorted(_key(l) for l in lines),
    "names": sorted(str(n) for n in g.names),
    "segment_names": sorted(str(n) for n in g.segment_names),
    "edge_names": sorted(str(n) for n in g.edge_names),
    "path_names": sorted(str(n) for n in g.path_names),
    "set_names": sorted(str(n) for n in g.set_names),
    "gap_names": sorted(str(n) for n in g.gap_names),
    "virtual": sorted(_key(l) for l in lines if l.virtual),
  }
  if with_refs:
    refs = {}
    for l in lines:
      if l.record_type in ("H", "#"):
        continue
      k = _key(l)
      for f in ref_fields(l):
        v = l.get(f)
        vs = v if isinstance(v, list) else [v]
        # field references are ordered (items of a path), keep the order
        refs.setdefault(k, {})["F:" + f] = [_name_of(x) for x in vs]
      for rk, lst in (l._refs or {}).items():
        if not lst:
          continue
        vals = [_name_of(x) for x in lst]
        # back-reference collections are multisets; 'links' of a path is ordered
        refs.setdefault(k, {})["R:" + rk] = vals if rk == "links" else sorted(vals)
    obs["refs"] = {k: refs[k] for k in sorted(refs)}
  return obs


def diff_obs(a, b):
  out = []
  for k in sorted(set(a) | set(b)):
    if a.get(k) != b.get(k):
      if k == "refs":
        for kk in sorted(set(a.get(k, {})) | set(b.get(k, {}))):
          if a[k].get(kk) != b[k].get(kk):
            out.append("refs[%s]: %r != %r" % (kk, a[k].get(kk), b[k].get(kk)))
      else:
        out.append("%s: %r != %r" % (k, a.get(k), b.get(k)))
  return out


# ---------------------------------------------------------------------------
# C02 invariant
# ---------------------------------------------------------------------------
def _targets(v):
  """flatten a reference field / collection value into (line-or-str) items"""
  if isinstance(v, list):
    out = []
    for x in v:
      out += _targets(x)
    return out
  if isinstance(v, gfapy.OrientedLine):
    return [v.line]
  return [v]


def _registered(g, t):
  """is line t found in g under its current identifier?"""
  rt = t.record_type
  if rt == "S":
    return g.segment(t.name) is t
  if rt in ("L", "C"):
    coll = g._gfa1_links if rt == "L" else g._gfa1_containments
    return any(x is t for x in coll)
  if rt == "F":
    return any(x is t for x in g.fragments)
  name = t.get("name") if rt != "\n" else t.name
  if gfapy.is_placeholder(name):
    return any(x is t for x in g.lines)
  return g.line(str(name)) is t


def invariant(g):
  """-> list of violated clauses (empty = closed, symmetric, owned)."""
  bad = []
  lines = all_lines(g)
  ids = set(id(l) for l in lines)
  for l in lines:
    if l.record_type == "H":
      continue
    where = _key(l)
    if l.gfa is not g:
      bad.append("owner: %s is listed by the Gfa but reports gfa=%r" % (where, l.gfa))
    if l.record_type == "#":
      continue
    if not _registered(g, l):
      bad.append("lookup: %s is listed but not found under its identifier" % where)
    # forward references
    fwd = []
    for f in ref_fields(l):
      for t in _targets(l.get(f)):
        if not isinstance(t, gfapy.Line):
          bad.append("closure: field %s of %s holds %r, not a line" % (f, where, t))
          continue
        fwd.append((f, t))
    nonfield_fwd = []
    if l.record_type == "P":
      for t in _targets(l._refs.get("links", [])):
        nonfield_fwd.append(("links", t))
    for f, t in fwd + nonfield_fwd:
      if id(t) not in ids or t.gfa is not g:
        bad.append("closure: %s.%s -> %s which is not a line of this Gfa" % (where, f, _name_of(t)))
        continue
      if not _registered(g, t):
        bad.append("lookup: %s.%s -> %s not found under its identifier" % (where, f, _name_of(t)))
      # mirrored by a back-reference
      n_back = sum(1 for lst in t._refs.values() for x in lst
                   if (x.line if isinstance(x, gfapy.OrientedLine) else x) is l)
      n_fwd = sum(1 for (_, t2) in fwd + nonfield_fwd if t2 is t)
      if n_back == 0:
        bad.append("symmetry: %s.%s -> %s has no back-reference" % (where, f, _name_of(t)))
      elif n_back != n_fwd:
        bad.append("symmetry: %s refers %d time(s) to %s which lists it %d time(s)" %
                   (where, n_fwd, _name_of(t), n_back))
    # back references
    for rk, lst in (l._refs or {}).items():
      if l.record_type == "P" and rk == "links":
        continue
      for x in lst:
        r = x.line if isinstance(x, gfapy.OrientedLine) else x
        if not isinstance(r, gfapy.Line):
          bad.append("closure: %s._refs[%s] holds %r" % (where, rk, r)); continue
        if id(r) not in ids or r.gfa is not g:
          bad.append("closure: %s lists %s under %s, which is not a line of this Gfa" % (where, _name_of(r), rk))
          continue
        # mirrored by a reference
        back_targets = []
        for f in ref_fields(r):
          back_targets += _targets(r.get(f))
        if r.record_type == "P":
          back_targets += _targets(r._refs.get("links", []))
        if not any(t is l for t in back_targets):
          bad.append("symmetry: %s lists %s under %s but that line does not refer to it" % (where, _name_of(r), rk))
  return sorted(set(bad))
