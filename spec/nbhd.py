"""C11 oracle on whole graphs: the traversal collections every segment must
have, computed from the *written text* of the Gfa with the specification
semantics of spec/edgesem.py, compared with what gfapy's objects answer."""
import gfapy
from spec import edgesem
from spec.observe import canon_text, line_text

KEYS = ["dovetails_L", "dovetails_R", "edges_to_contained", "edges_to_containers",
        "internals", "gaps_L", "gaps_R"]


_VC = "\tco:Z:GFAPY_virtual_line"     # commentary gfapy appends to placeholders


def _pos(s):
  if s.endswith("$"):
    return int(s[:-1]), True
  return int(s), False


def expected(text):
  """-> {segment name: {key: sorted list of canonical edge texts}},
        {segment: {derived answer: sorted names}}"""
  coll = {}
  def add(seg, key, t):
    coll.setdefault(seg, {k: [] for k in KEYS})[key].append(canon_text(t))
  lines = [l[:-len(_VC)] if l.endswith(_VC) else l for l in text.split("\n") if l]
  for t in lines:
    f = t.split("\t")
    if f[0] == "S":
      coll.setdefault(f[1], {k: [] for k in KEYS})
  for t in lines:
    f = t.split("\t")
    rt = f[0]
    if rt == "L":
      e1, e2 = edgesem.l_ends(f[2], f[4])
      add(f[1], "dovetails_" + e1, t); add(f[3], "dovetails_" + e2, t)
    elif rt == "C":
      add(f[1], "edges_to_contained", t); add(f[3], "edges_to_containers", t)
    elif rt == "G":
      e1, e2 = edgesem.g_ends(f[2][-1], f[3][-1])
      add(f[2][:-1], "gaps_" + e1, t); add(f[3][:-1], "gaps_" + e2, t)
    elif rt == "E":
      b1, _ = _pos(f[4]); e1, l1 = _pos(f[5]); b2, _ = _pos(f[6]); e2, l2 = _pos(f[7])
      c = edgesem.e_class(f[2][-1], edgesem.interval_kind(b1, e1, l1),
                          f[3][-1], edgesem.interval_kind(b2, e2, l2))
      add(f[2][:-1], c["key1"], t); add(f[3][:-1], c["key2"], t)
  return {s: {k: sorted(v) for k, v in d.items()} for s, d in coll.items()}


def actual(g):
  out = {}
  for s in g.segments:
    d = {}
    for k in KEYS:
      try:
        lst = getattr(s, k)
      except AttributeError:   # GFA1 segments answer the GFA2-only keys with []
        lst = []
      d[k] = sorted(canon_text(line_text(x)) for x in lst)
    out[str(s.name)] = d
  return out


def _other(t, seg, role=None):
  f = t.split("\t")
  if f[0] in ("L", "C"):
    a, b = f[1], f[3]
  else:
    a, b = f[2][:-1], f[3][:-1]
  return b if a == seg else a


def _per_line(texts):
  """collection entries -> one per written line: a circular edge (both sides on this collection) appears twice
  for a single line.  Identical anonymous lines are distinct lines: count how many are written."""
  out, seen = [], {}
  for t in texts:
    seen[t] = seen.get(t, 0) + 1
  for t, n in seen.items():
    f = t.split("\t")
    circular = (f[1] == f[3]) if f[0] in ("L", "C") else (f[2][:-1] == f[3][:-1])
    out += [t] * ((n + 1) // 2 if circular else n)
  return out


def check(g):
  """-> list of discrepancies between gfapy's answers and the specification"""
  bad = []
  exp = expected(str(g))
  act = actual(g)
  for s in sorted(set(exp) | set(act)):
    for k in KEYS:
      e = exp.get(s, {}).get(k, []); a = act.get(s, {}).get(k, [])
      if e != a:
        bad.append("%s.%s: spec %r, gfapy %r" % (s, k, e, a))
  # derived answers
  for seg in g.segments:
    s = str(seg.name)
    if s not in exp: continue
    for end in "LR":
      # one entry per dovetail *line* on that end (answers are de-duplicated by line, not by segment); a hairpin
      # is one line listed twice in the collection
      want = sorted(_other(t, s) for t in _per_line(exp[s]["dovetails_" + end]))
      got = sorted(str(x.name) for x in getattr(seg, "neighbours_" + end))
      if want != got:
        bad.append("%s.neighbours_%s: spec %r, gfapy %r" % (s, end, want, got))
      got2 = sorted(canon_text(line_text(x)) for x in seg.dovetails_of_end(end))
      if got2 != exp[s]["dovetails_" + end]:
        bad.append("%s.dovetails_of_end(%s): spec %r, gfapy %r" % (s, end, exp[s]["dovetails_" + end], got2))
    want = sorted(_other(t, s) for t in _per_line(exp[s]["edges_to_containers"]))
    got = sorted(str(x.name) for x in seg.containers)
    if want != got: bad.append("%s.containers: spec %r, gfapy %r" % (s, want, got))
    want = sorted(_other(t, s) for t in _per_line(exp[s]["edges_to_contained"]))
    got = sorted(str(x.name) for x in seg.contained)
    if want != got: bad.append("%s.contained: spec %r, gfapy %r" % (s, want, got))
  return bad


# ---------------------------------------------------------------------------
# C16 oracle: components and counters from the written text
# ---------------------------------------------------------------------------
def topology_expected(text):
  lines = [l[:-len(_VC)] if l.endswith(_VC) else l for l in text.split("\n") if l]
  segs, pairs = [], []
  n = {"dovetails": 0, "containments": 0, "internals": 0}
  touched = set()
  for t in lines:
    f = t.split("\t")
    if f[0] == "S":
      segs.append(f[1])
  for t in lines:
    f = t.split("\t")
    if f[0] == "L":
      e1, e2 = edgesem.l_ends(f[2], f[4])
      pairs.append((f[1], f[3])); n["dovetails"] += 1
      touched.add((f[1], e1)); touched.add((f[3], e2))
    elif f[0] == "C":
      n["containments"] += 1
    elif f[0] == "E":
      b1, _ = _pos(f[4]); e1, l1 = _pos(f[5]); b2, _ = _pos(f[6]); e2, l2 = _pos(f[7])
      c = edgesem.e_class(f[2][-1], edgesem.interval_kind(b1, e1, l1), f[3][-1], edgesem.interval_kind(b2, e2, l2))
      if c["kind"] == "dovetail":
        pairs.append((f[2][:-1], f[3][:-1])); n["dovetails"] += 1
        touched.add((f[2][:-1], c["end1"])); touched.add((f[3][:-1], c["end2"]))
      elif c["kind"] == "containment":
        n["containments"] += 1
      else:
        n["internals"] += 1
  comps = edgesem.components(segs, pairs)
  n["dead_ends"] = sum(1 for s in segs for e in "LR" if (s, e) not in touched)
  return comps, n


def topology_check(g):
  bad = []
  comps, n = topology_expected(str(g))
  got = set(frozenset(str(s.name) for s in c) for c in g.connected_components())
  if got != comps:
    bad.append("connected_components: spec %r, gfapy %r" % (sorted(map(sorted, comps)), sorted(map(sorted, got))))
  if sum(len(c) for c in g.connected_components()) != len(g.segment_names):
    bad.append("connected_components is not a partition of the segments")
  for s in g.segment_names:
    cl = frozenset(str(x.name) for x in g.segment_connected_component(s))
    want = [c for c in comps if str(s) in c][0]
    if cl != want:
      bad.append("segment_connected_component(%s): spec %r, gfapy %r" % (s, sorted(want), sorted(cl)))
  for k, attr in (("dovetails", "n_dovetails"), ("containments", "n_containments"),
                  ("internals", "n_internals"), ("dead_ends", "n_dead_ends")):
    if getattr(g, attr) != n[k]:
      bad.append("%s: spec %d, gfapy %d" % (attr, n[k], getattr(g, attr)))
  return bad
