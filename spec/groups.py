"""C17 oracle: second implementation of GFA2 group resolution (DESIGN.md A5),
on plain data parsed from the written text."""

INV = {"+": "-", "-": "+"}


class Problem(Exception):
  def __init__(self, kind, msg=""):
    Exception.__init__(self, msg); self.kind = kind      # notfound | notunique | inconsistent | unresolved


def parse(lines):
  g = {"S": set(), "E": {}, "O": {}, "U": {}, "G": set()}
  for t in lines:
    f = t.split("\t")
    if f[0] == "S": g["S"].add(f[1])
    elif f[0] == "E":
      key = f[1] if f[1] != "*" else "*#%d" % len([k for k in g["E"] if k.startswith("*#")])   # anonymous edges are distinct
      g["E"][key] = ((f[2][:-1], f[2][-1]), (f[3][:-1], f[3][-1]))
    elif f[0] == "G": g["G"].add(f[1])
    elif f[0] == "O":
      g["O"].setdefault(f[1], []).extend((x[:-1], x[-1]) for x in f[2].split(" "))
    elif f[0] == "U":
      g["U"].setdefault(f[1], []).extend(f[2].split(" "))
  return g


def inv(os):
  return (os[0], INV[os[1]])


def edges_between(g, a, b):
  """edges joining oriented segments a and b: '+' if the edge names them as written (either order),
  '-' if it names both inverted"""
  out = []
  for eid, (s1, s2) in g["E"].items():
    if (s1 == b and s2 == a) or (s1 == a and s2 == b):
      out.append((eid, "+"))
    elif (s1 == inv(b) and s2 == inv(a)) or (s1 == inv(a) and s2 == inv(b)):
      out.append((eid, "-"))
  return out


def captured_path(g, oid, depth=0):
  """-> list of (name, orient) alternating segments and edges"""
  if depth > 6: raise Problem("unresolved", "nesting too deep")
  items = g["O"][oid]
  walk = []                      # always ends with a segment once non-empty
  after_edge = False             # the last thing consumed was an edge (its far segment is implied)
  def flat(items, depth):
    """inline nested ordered groups"""
    out = []
    for (name, o) in items:
      if name in g["O"]:
        sub = captured_path(g, name, depth + 1)
        if not sub: raise Problem("unresolved", "empty nested path")
        out += [("item", x) for x in (sub if o == "+" else [inv(x) for x in reversed(sub)])]
      else:
        out.append(("item", (name, o)))
    return [x[1] for x in out]
  seq = flat(items, depth)
  for i, (name, o) in enumerate(seq):
    if name in g["S"]:
      cur = (name, o)
      if not walk:
        walk.append(cur)
      elif after_edge:
        if walk[-1] != cur: raise Problem("inconsistent", "segment after an edge is not its far segment")
      else:
        es = edges_between(g, walk[-1], cur)
        if not es: raise Problem("notfound", "no edge between adjacent segments")
        if len(es) > 1: raise Problem("notunique", "several edges between adjacent segments")
        walk.append(es[0]); walk.append(cur)
      after_edge = False
    elif name in g["E"]:
      s1, s2 = g["E"][name]
      # '+': from sid1 to sid2 as written; '-': the reverse walk, from sid2 to sid1, both inverted
      # (so that 'O x e-' is the same path as 'O y e+' referenced as 'y-')
      ends = [s1, s2] if o == "+" else [inv(s2), inv(s1)]
      if not walk:
        # first item: the walk starts at the side of the edge that is NOT continued by the next item
        nxt = seq[i + 1] if i + 1 < len(seq) else None
        start, far = ends[0], ends[1]
        if nxt is not None:
          if nxt[0] in g["S"] and nxt == ends[0]:
            start, far = ends[1], ends[0]
          elif nxt[0] in g["E"]:
            n1, n2 = g["E"][nxt[0]]
            nends = [n1, n2] if nxt[1] == "+" else [inv(n2), inv(n1)]
            if ends[0] in nends and ends[1] not in nends:
              start, far = ends[1], ends[0]
        walk += [start, (name, o), far]
      else:
        if walk[-1] == ends[0]: far = ends[1]
        elif walk[-1] == ends[1]: far = ends[0]
        else: raise Problem("notfound", "edge does not continue the walk")
        walk += [(name, o), far]
      after_edge = True
    else:
      raise Problem("unresolved", "item %s is not a segment, edge or path" % name)
  return walk


def induced_segments(g, uid, depth=0):
  if depth > 6: raise Problem("unresolved", "nesting too deep")
  out = []
  for name in g["U"][uid]:
    if name in g["S"]: out.append(name)
    elif name in g["E"]:
      out += [g["E"][name][0][0], g["E"][name][1][0]]
    elif name in g["O"]:
      out += [x[0] for x in captured_path(g, name) if x[0] in g["S"]]
    elif name in g["U"]:
      out += induced_segments(g, name, depth + 1)
    elif name in g["G"]:
      raise Problem("type", "gaps are not resolvable items")
    else:
      raise Problem("unresolved", name)
  seen, res = set(), []
  for s in out:
    if s not in seen:
      seen.add(s); res.append(s)
  return res


def induced_edges(g, segs):
  s = set(segs)
  return sorted(eid for eid, (a, b) in g["E"].items() if a[0] in s and b[0] in s)
