"""C14 oracle: expected result of merge_linear_paths, computed from plain
values with the chain finder / speller of spec/edgesem.py (Appendix A6)."""
from spec import edgesem as E

OTHER = {"L": "R", "R": "L"}

def _pos(x):
  return (int(x[:-1]), True) if x.endswith("$") else (int(x), False)

def _inc_of_text(t):
  """the two segment ends a written dovetail (L line or dovetail E line) joins, and its overlap"""
  f = t.split("\t")
  if f[0] == "L":
    return E.link_incidences((f[1], f[2], f[3], f[4], 0)), f[5]
  b1, _ = _pos(f[4]); e1, l1 = _pos(f[5]); b2, _ = _pos(f[6]); e2, l2 = _pos(f[7])
  c = E.e_class(f[2][-1], E.interval_kind(b1, e1, l1), f[3][-1], E.interval_kind(b2, e2, l2))
  return ((f[2][:-1], c["end1"]), (f[3][:-1], c["end2"])), f[8]

def check_linear_paths(g, segs, links):
  """gfapy's linear_paths() vs the chain finder; -> list of problems"""
  chains = E.linear_chains(segs, links)
  want = sorted(str(E.chain_key(c, cyc)) for c, cyc in chains)
  got = []
  for lp in g.linear_paths():
    ch = [(str(se.name), "L" if se.end_type == "R" else "R") for se in lp]
    names = frozenset(x[0] for x in ch)
    cyc = any(names == frozenset(x[0] for x in c) and cy for c, cy in chains)
    got.append(str(E.chain_key(ch, cyc)))
  return [] if sorted(got) == want else ["linear_paths: spec %r, gfapy %r" % (want, sorted(got))]

def check_merged(g, segs, seq, links, lens=None):
  """g has been merged; segs/seq/links describe the graph before (lens: segment lengths when there are no
  sequences).  A cycle may be opened at any of its junctions: every rotation is tried.  -> list of problems"""
  import itertools
  chains = E.linear_chains(segs, links)
  options = [([ch[i:] + ch[:i] for i in range(len(ch))] if cyc else [ch]) for ch, cyc in chains]
  first = None
  for choice in itertools.product(*options):
    bad = _check_merged(g, segs, seq, links, list(choice), lens)
    if not bad: return []
    if first is None: first = bad
  return first or []

def _chain_len(r, links, lens):
  deg = {}
  for l in links:
    a, b = E.link_incidences(l)
    deg.setdefault(a, []).append(l); deg.setdefault(b, []).append(l)
  total = 0
  for i, (s, entered) in enumerate(r):
    total += lens[s]
    if i > 0:
      total -= deg[(r[i - 1][0], OTHER[r[i - 1][1]])][0][4]
  return total

def _check_merged(g, segs, seq, links, chains, lens):
  bad = []
  in_chain = set(s for ch in chains for (s, e) in ch)
  after = {str(s.name): (None if str(s.sequence) == "*" else str(s.sequence)) for s in g.segments}
  mapping, final = {}, []
  for s in segs:
    if s not in in_chain:
      if s not in after or after[s] != seq[s]: bad.append("segment %s outside every chain changed" % s)
      mapping[(s, "L")] = (s, "L"); mapping[(s, "R")] = (s, "R")
  for r in chains:
    sp = E.spell_chain(r, links, seq)
    cands = [n for n, q in after.items() if n not in segs and set(n.split("_")) == set(x[0] for x in r) and
             (q in (sp, E.revcomp(sp)) if sp is not None else q is None)]
    if len(cands) != 1:
      bad.append("chain %r: no merged segment with the spelled sequence %r (segments now: %r)" % (r, sp, after)); continue
    m = cands[0]
    final.append(r)
    seg = g.segment(m)
    want_len = len(sp) if sp is not None else (_chain_len(r, links, lens) if lens else None)
    if want_len is not None and seg.length is not None and seg.length != want_len:
      bad.append("merged %s: length %r, expected %d" % (m, seg.length, want_len))
    # orientation of the merged segment: decided by the sequence, else by its name (first member first)
    if sp is not None and sp != E.revcomp(sp): fwd = after[m] == sp
    else: fwd = m.split("_")[0] == r[0][0]
    first, last = (r[0][0], r[0][1]), (r[-1][0], OTHER[r[-1][1]])
    mapping[first] = (m, "L") if fwd else (m, "R")
    mapping[last] = (m, "R") if fwd else (m, "L")
  if bad: return bad
  n_expected = len(segs) - len(in_chain) + len(chains)
  if len(after) != n_expected: bad.append("segments after merging: %r" % sorted(after))
  internal = set()
  for ch in final:
    for i in range(len(ch) - 1):
      internal.add(frozenset([(ch[i][0], OTHER[ch[i][1]]), (ch[i + 1][0], ch[i + 1][1])]))
  want = []
  for l in links:
    a, b = E.link_incidences(l)
    if frozenset([a, b]) in internal and not (a in mapping and b in mapping): continue
    if a not in mapping or b not in mapping:
      bad.append("oracle cannot place link %r" % (l,)); continue
    key = frozenset([mapping[a], mapping[b]]) if mapping[a] != mapping[b] else (mapping[a],)
    want.append((str(sorted(key)), ("%dM" % l[4]) if l[4] else "*"))
  got = []
  for l in g.dovetails:
    (a, b), ov = _inc_of_text(str(l))
    key = frozenset([a, b]) if a != b else (a,)
    got.append((str(sorted(key)), ov))
  if sorted(got) != sorted(want):
    bad.append("dovetails after merging: spec %r, gfapy %r" % (sorted(want), sorted(got)))
  return bad
