"""Edge semantics re-derived from the GFA1/GFA2 specifications (DESIGN.md
Appendix A1, A2, A6) -- independent of gfapy's implementation.  Pure functions
on plain values; usable on symbolic ints (only comparisons/arithmetic)."""

INV = {"+": "-", "-": "+"}


# ---- A1: GFA1 lines -------------------------------------------------------
def l_ends(fo, to):
  """L f fo t to -> (end of f touched, end of t touched)"""
  return ("R" if fo == "+" else "L", "L" if to == "+" else "R")


def g_ends(o1, o2):
  """G sid1 sid2 -> (gap end on sid1 segment, gap end on sid2 segment)"""
  return ("R" if o1 == "+" else "L", "L" if o2 == "+" else "R")


# ---- A1: GFA2 E lines -----------------------------------------------------
def interval_kind(beg, end, end_is_last):
  """kind of the interval [beg,end) on a segment of length >= 1 where
  end_is_last says that end carries '$' (i.e. equals the segment length)."""
  if beg == 0 and end_is_last:
    return "whole"
  if beg == 0:
    return "pfx"
  if end_is_last:
    return "sfx"
  return "inner"


def e_class(o1, k1, o2, k2):
  """-> dict(kind=dovetail|containment|internal, key1, key2, sid1_is_from,
             end1, end2)
  key<i> is the collection of segment i that lists the edge."""
  if k1 == "whole" or k2 == "whole":
    # the whole side is the contained one; both whole: sid1 is the container
    if k2 == "whole":
      return dict(kind="containment", key1="edges_to_contained", key2="edges_to_containers",
                  sid1_is_from=True, end1=None, end2=None)
    return dict(kind="containment", key1="edges_to_containers", key2="edges_to_contained",
                sid1_is_from=False, end1=None, end2=None)
  def role(k, o):
    if k == "inner": return None
    # prefix of the *oriented* sequence: pfx on +, sfx on -
    return "P" if ((k == "pfx") == (o == "+")) else "S"
  r1, r2 = role(k1, o1), role(k2, o2)
  if r1 is not None and r2 is not None and r1 != r2:
    e1 = "L" if k1 == "pfx" else "R"
    e2 = "L" if k2 == "pfx" else "R"
    return dict(kind="dovetail", key1="dovetails_" + e1, key2="dovetails_" + e2,
                sid1_is_from=(r1 == "S"), end1=e1, end2=e2)
  return dict(kind="internal", key1="internals", key2="internals", sid1_is_from=None,
              end1=None, end2=None)


# ---- A2: conversion intervals --------------------------------------------
def cigar_ref_qry(ops):
  """ops: list of (code, length)"""
  ref = sum(n for (c, n) in ops if c in ("M", "=", "X", "D", "N"))
  qry = sum(n for (c, n) in ops if c in ("M", "=", "X", "I", "S"))
  return ref, qry


def link_intervals(fo, to, Lf, Lt, ref, qry):
  """L f fo t to C  ->  ((beg1,end1,end1_last),(beg2,end2,end2_last));
  a position equal to the segment length always carries '$', no other does"""
  if fo == "+":
    b1, e1 = Lf - ref, Lf
  else:
    b1, e1 = 0, ref
  if to == "+":
    b2, e2 = 0, qry
  else:
    b2, e2 = Lt - qry, Lt
  return ((b1, e1, e1 == Lf), (b2, e2, e2 == Lt))


def containment_intervals(pos, Lf, Lt, ref):
  return ((pos, pos + ref, pos + ref == Lf), (0, Lt, True))


# ---- components -----------------------------------------------------------
def components(nodes, pairs):
  """union-find; -> set of frozensets"""
  parent = {n: n for n in nodes}
  def find(x):
    while parent[x] != x:
      parent[x] = parent[parent[x]]
      x = parent[x]
    return x
  for a, b in pairs:
    ra, rb = find(a), find(b)
    if ra != rb:
      parent[ra] = rb
  cl = {}
  for n in nodes:
    cl.setdefault(find(n), set()).add(n)
  return set(frozenset(v) for v in cl.values())


# ---- A6: linear paths and merging -----------------------------------------
# IUPAC nucleotide codes (complement of the denoted base set); written out independently of gfapy's table
COMP = {"A": "T", "C": "G", "G": "C", "T": "A", "U": "A", "N": "N",
        "R": "Y", "Y": "R", "S": "S", "W": "W", "K": "M", "M": "K", "B": "V", "V": "B", "D": "H", "H": "D"}
COMP.update({k.lower(): v.lower() for k, v in list(COMP.items())})

def revcomp(s):
  return "".join(COMP.get(c, c) for c in reversed(s))

def link_incidences(link):
  """link = (f, fo, t, to, k) -> ((f, end), (t, end))"""
  f, fo, t, to = link[:4]
  e1, e2 = l_ends(fo, to)
  return (f, e1), (t, e2)

def linear_chains(segments, links):
  """maximal chains (>= 2 segments) of segments joined by dovetails that are the only dovetail on both
  joined ends.  -> list of chains; a chain is a list of (segment, entered_through_end) plus a flag 'cyclic'.
  Chains are returned in one of their two directions (compare modulo reversal / rotation)."""
  deg = {}
  for l in links:
    for inc in link_incidences(l):
      deg[inc] = deg.get(inc, 0) + 1
  nxt = {}          # segment end -> (other segment end, link) over linear junctions
  for l in links:
    a, b = link_incidences(l)
    if deg[a] == 1 and deg[b] == 1 and a != b:
      nxt[a] = (b, l); nxt[b] = (a, l)
  other = {"L": "R", "R": "L"}
  seen, chains = set(), []
  def walk(start_seg, leave_end):
    """walk leaving start_seg through leave_end; -> list of (seg, entered_end), closed?"""
    out = []
    cur = (start_seg, leave_end)
    while cur in nxt:
      (s2, e2), l = nxt[cur]
      if s2 == start_seg:
        return out, True
      out.append((s2, e2, l))
      cur = (s2, other[e2])
    return out, False
  for s in segments:
    if s in seen: continue
    right, closed = walk(s, "R")
    if closed:
      chain = [(s, "L", None)] + right
      cyc = True
    else:
      left, _ = walk(s, "L")
      # left walk leaves through L: reverse it so that the chain reads left-to-right
      chain = [(x[0], other[x[1]], None) for x in reversed(left)] + [(s, "L", None)] + right
      cyc = False
    for x in chain: seen.add(x[0])
    if len(chain) >= 2:
      chains.append(([(x[0], x[1]) for x in chain], cyc))
  return chains

def chain_key(chain, cyc):
  """canonical form of a chain modulo reversal (and rotation for cycles): as a set of unoriented names for
  cycles, a direction-free tuple for paths"""
  names = [x[0] for x in chain]
  if cyc:
    return ("cycle", tuple(sorted(names)), len(names))
  fwd = tuple((s, e) for s, e in chain)
  other = {"L": "R", "R": "L"}
  bwd = tuple((s, other[e]) for s, e in reversed(chain))
  return ("path", min(fwd, bwd))

def dedup_links(links):
  """a link and its exact complement are one edge (C12): keep the first spelling"""
  out, seen = [], set()
  for l in links:
    f, fo, t, to, k = l
    a = (f, fo, t, to, k); b = (t, INV[to], f, INV[fo], k)      # M-only / '*' overlaps are their own complement
    if a in seen or b in seen: continue
    seen.add(a); out.append(l)
  return out

def spell_chain(chain, links, seq):
  """-> spelled sequence (None if any member has no sequence), total length"""
  deg_links = {}
  for l in links:
    a, b = link_incidences(l)
    deg_links.setdefault(a, []).append(l); deg_links.setdefault(b, []).append(l)
  other = {"L": "R", "R": "L"}
  out = ""
  for i, (s, entered) in enumerate(chain):
    sq = seq[s]
    if sq is None: return None
    o = sq if entered == "L" else revcomp(sq)
    if i > 0:
      prev_exit = (chain[i - 1][0], other[chain[i - 1][1]])
      ls = [l for l in deg_links.get(prev_exit, [])]
      k = ls[0][4]
      o = o[k:]
    out += o
  return out

def merged_graph(segments, links, seq):
  """expected result of merging all linear chains: -> (dict name->set of acceptable sequences,
  list of acceptable link multisets is too loose; instead returns a function that maps an old incidence to the
  new one given the orientation choice per chain)"""
  chains = linear_chains(segments, links)
  return chains
