"""Edge semantics re-derived from the GFA1/GFA2 specifications (DESIGN.md
Appendix A1, A2, A6) -- independent of gfapy's implementation.  Pure functions
on plain values; usable on symbolic ints (only comparisons/arithmetic)."""

INV = {"+": "-", "-": "+"}


# ---- A1: GFA1 lines -------------------------------------------------------
def l_ends(fo, to):
  """L f fo t to -> (end of f touched, end of t touched)"""
  return ("R" if fo == "+" else "L", "L" if to == "+" else "R")


def g_ends(o1, o2):
  """G sid1 sid2 -> (gap end on sid1 segment, gap end on sid2 segment)"""
  return ("R" if o1 == "+" else "L", "L" if o2 == "+" else "R")


# ---- A1: GFA2 E lines -----------------------------------------------------
def interval_kind(beg, end, end_is_last):
  """kind of the interval [beg,end) on a segment of length >= 1 where
  end_is_last says that end carries '$' (i.e. equals the segment length)."""
  if beg == 0 and end_is_last:
    return "whole"
  if beg == 0:
    return "pfx"
  if end_is_last:
    return "sfx"
  return "inner"


def e_class(o1, k1, o2, k2):
  """-> dict(kind=dovetail|containment|internal, key1, key2, sid1_is_from,
             end1, end2)
  key<i> is the collection of segment i that lists the edge."""
  if k1 == "whole" or k2 == "whole":
    # the whole side is the contained one; both whole: sid1 is the container
    if k2 == "whole":
      return dict(kind="containment", key1="edges_to_contained", key2="edges_to_containers",
                  sid1_is_from=True, end1=None, end2=None)
    return dict(kind="containment", key1="edges_to_containers", key2="edges_to_contained",
                sid1_is_from=False, end1=None, end2=None)
  def role(k, o):
    if k == "inner": return None
    # prefix of the *oriented* sequence: pfx on +, sfx on -
    return "P" if ((k == "pfx") == (o == "+")) else "S"
  r1, r2 = role(k1, o1), role(k2, o2)
  if r1 is not None and r2 is not None and r1 != r2:
    e1 = "L" if k1 == "pfx" else "R"
    e2 = "L" if k2 == "pfx" else "R"
    return dict(kind="dovetail", key1="dovetails_" + e1, key2="dovetails_" + e2,
                sid1_is_from=(r1 == "S"), end1=e1, end2=e2)
  return dict(kind="internal", key1="internals", key2="internals", sid1_is_from=None,
              end1=None, end2=None)


# ---- A2: conversion intervals --------------------------------------------
def cigar_ref_qry(ops):
  """ops: list of (code, length)"""
  ref = sum(n for (c, n) in ops if c in ("M", "=", "X", "D", "N"))
  qry = sum(n for (c, n) in ops if c in ("M", "=", "X", "I", "S"))
  return ref, qry


def link_intervals(fo, to, Lf, Lt, ref, qry):
  """L f fo t to C  ->  ((beg1,end1,end1_last),(beg2,end2,end2_last));
  a position equal to the segment length always carries '$', no other does"""
  if fo == "+":
    b1, e1 = Lf - ref, Lf
  else:
    b1, e1 = 0, ref
  if to == "+":
    b2, e2 = 0, qry
  else:
    b2, e2 = Lt - qry, Lt
  return ((b1, e1, e1 == Lf), (b2, e2, e2 == Lt))


def containment_intervals(pos, Lf, Lt, ref):
  return ((pos, pos + ref, pos + ref == Lf), (0, Lt, True))


# ---- components -----------------------------------------------------------
def components(nodes, pairs):
  """union-find; -> set of frozensets"""
  parent = {n: n for n in nodes}
  def find(x):
    while parent[x] != x:
      parent[x] = parent[parent[x]]
      x = parent[x]
    return x
  for a, b in pairs:
    ra, rb = find(a), find(b)
    if ra != rb:
      parent[ra] = rb
  cl = {}
  for n in nodes:
    cl.setdefault(find(n), set()).add(n)
  return set(frozenset(v) for v in cl.values())
