"""Text model of a GFA document (C05, C09): the content of a Gfa after a history
of mutations must equal the document obtained by *editing the text*.

A document is a list of written lines.  Dependency rules are the documented
ones (doc/tutorial/references.rst, DESIGN.md Appendix A3)."""
import re
from spec.observe import canon_text, cigar_complement_text, INV


def fields(t):
  return t.split("\t")


def record_type(t):
  return t.split("\t", 1)[0]


def defined_id(t):
  """identifier a line defines in the shared namespace (None if anonymous)"""
  f = fields(t)
  rt = f[0]
  if rt in ("S", "P", "E", "G", "O", "U"):
    return None if f[1] == "*" else f[1]
  if rt in ("L", "C"):
    for x in f[1:]:
      if x.startswith("ID:Z:"):
        return x[5:]
  return None


def _strip_o(x):
  return x[:-1] if x and x[-1] in "+-" else x


def mentions(t):
  """identifiers a line refers to (list, with repetition)"""
  f = fields(t)
  rt = f[0]
  if rt in ("L", "C"):
    return [f[1], f[3]]
  if rt == "P":
    return [_strip_o(x) for x in f[2].split(",")]
  if rt in ("E", "G"):
    return [_strip_o(f[2]), _strip_o(f[3])]
  if rt == "F":
    return [f[1]]
  if rt == "O":
    return [_strip_o(x) for x in f[2].split(" ")]
  if rt == "U":
    return f[2].split(" ")
  return []


def path_steps(t):
  """P line -> list of (from oriented, to oriented, cigar or '*')"""
  f = fields(t)
  segs = f[2].split(",")
  ovs = f[3].split(",")
  undef = (ovs == ["*"])
  out = []
  for i in range(len(segs) - 1):
    out.append((segs[i], segs[i + 1], "*" if undef else ovs[i]))
  if not undef and len(ovs) == len(segs) and len(segs) > 1:
    out.append((segs[-1], segs[0], ovs[-1]))          # circular path
  return out


def link_matches(lt, frm, to, cigar):
  """does the L line text lt realise the step frm->to (oriented names), in
  either direction?  '*' is compatible with anything (gfapy's documented rule)"""
  f = fields(lt)
  a = (f[1] + f[2], f[3] + f[4], f[5])
  b = (f[3] + INV[f[4]], f[1] + INV[f[2]], cigar_complement_text(f[5]))
  for (x, y, c) in (a, b):
    if x == frm and y == to and (c == cigar or c == "*" or cigar == "*"):
      return True
  return False


class Doc:
  def __init__(self, lines):
    self.lines = [l for l in lines if l != ""]

  def copy(self):
    return Doc(list(self.lines))

  def ids(self):
    return [i for i in (defined_id(l) for l in self.lines) if i is not None]

  def find(self, ident):
    return [l for l in self.lines if defined_id(l) == ident]

  def undefined_mentions(self):
    ids = set(self.ids())
    out = []
    for l in self.lines:
      if record_type(l) == "F":
        ms = [fields(l)[1]]
      else:
        ms = mentions(l)
      for m in ms:
        if m not in ids:
          out.append(m)
      if record_type(l) == "P":        # a path also needs a link for each step
        links = [x for x in self.lines if record_type(x) == "L"]
        for (a, b, c) in path_steps(l):
          if not any(link_matches(x, a, b, c) for x in links):
            out.append("link %s->%s" % (a, b))
    return out

  # ---- removal ------------------------------------------------------------
  def _dependants(self, t):
    """lines that must go when line t goes (one level)"""
    rt = record_type(t)
    ident = defined_id(t)
    out = []
    for l in self.lines:
      if l is t or l == t and l is not t:
        pass
      lrt = record_type(l)
      if l == t:
        continue
      if rt == "S":
        name = fields(t)[1]
        if lrt in ("L", "C", "E", "G", "F", "O", "U", "P") and name in mentions(l):
          out.append(l)
      elif rt == "L":
        if lrt == "P" and any(link_matches(t, a, b, c) for (a, b, c) in path_steps(l)):
          out.append(l)
      elif rt == "E":
        if lrt in ("O", "U") and ident is not None and ident in mentions(l):
          out.append(l)
      elif rt in ("O", "U"):
        if lrt in ("O", "U") and ident is not None and ident in mentions(l):
          out.append(l)
    return out

  def rm_line(self, t):
    """remove line t (by text) and, transitively, its dependants; a removed
    gap is dropped from the item list of the sets that mention it"""
    todo, gone = [t], []
    while todo:
      x = todo.pop()
      if x not in self.lines:
        continue
      deps = self._dependants(x)
      self.lines.remove(x)
      gone.append(x)
      todo += deps
    for x in gone:
      if record_type(x) == "G" and defined_id(x) is not None:
        gid = defined_id(x)
        new = []
        for l in self.lines:
          if record_type(l) == "U" and gid in mentions(l):
            f = fields(l)
            f[2] = " ".join(i for i in f[2].split(" ") if i != gid)
            l = "\t".join(f)
          new.append(l)
        self.lines = new
    return gone

  def rm(self, ident):
    hit = self.find(ident)
    if not hit:
      raise KeyError(ident)
    return self.rm_line(hit[0])

  # ---- rename ---------------------------------------------------------------
  def rename(self, a, b):
    """rewrite identifier a as b wherever it is written as an identifier"""
    new = []
    for l in self.lines:
      f = fields(l)
      rt = f[0]
      if defined_id(l) == a:
        if rt in ("L", "C"):
          f = [("ID:Z:" + b) if x == "ID:Z:" + a else x for x in f]
        else:
          f[1] = b
      def ro(x):   # oriented mention
        return (b + x[-1]) if (x and x[-1] in "+-" and x[:-1] == a) else x
      if rt in ("L", "C"):
        if f[1] == a: f[1] = b
        if f[3] == a: f[3] = b
      elif rt == "P":
        f[2] = ",".join(ro(x) for x in f[2].split(","))
      elif rt in ("E", "G"):
        f[2] = ro(f[2]); f[3] = ro(f[3])
      elif rt == "F":
        if f[1] == a: f[1] = b
      elif rt == "O":
        f[2] = " ".join(ro(x) for x in f[2].split(" "))
      elif rt == "U":
        f[2] = " ".join(b if x == a else x for x in f[2].split(" "))
      new.append("\t".join(f))
    self.lines = new

  def canon(self):
    return sorted(canon_text(l) for l in self.lines)
