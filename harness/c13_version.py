"""C13: the GFA version is inferred from content and enforced consistently."""
from vlib import vp
from vlib.vp import gfapy, NoTracing
from spec.observe import observe, diff_obs, canon_text, line_text

NPART = vp.NPART
PART = vp.PART
_FUNCS = ["Gfa.__init__", "Creators.add_line/__add_line_unknown_version/__add_line_GFA1/__add_line_GFA2/process_line_queue",
          "Construction._validate_version/_compute_version/_subclass*", "Segment._subclass", "Gfa._validate_version",
          "RGFA.validate_rgfa/_validate_rgfa_version", "Gfa.read_file/from_file"]

META = {
 "property": "C13",
 "harnesses": {
  "h_version_perm": {"kind": "G", "functions": _FUNCS,
    "bounds": "catalogue of 15 documents of 5 lines (pure GFA1 with/without VN, pure GFA2 with/without VN, version-neutral, mixed L+E, mixed S syntaxes, custom record + GFA1 lines, VN contradicting content, unsupported VN) x all 120 arrival orders x version parameter in {None, gfa1, gfa2} x vlevel 1..3 (thorough; quick: vlevel 1)",
    "timeout": {"quick": 400, "thorough": 900}, "parts": {"quick": 16, "thorough": 16}},
  "h_version_six": {"kind": "G", "functions": _FUNCS, "tiers": ["thorough"],
    "bounds": "4 documents of 6 lines x all 720 arrival orders x version parameter",
    "timeout": {"thorough": 900}, "parts": {"thorough": 16}},
  "h_dialect_file": {"kind": "G", "functions": _FUNCS,
    "bounds": "rGFA / standard dialect x version parameter x 6 documents x {Gfa(list), Gfa(string), from_file} for the identity and the reversed order",
    "timeout": {"quick": 300, "thorough": 600}, "parts": {"quick": 4, "thorough": 4}},
 },
}

S1a, S1b = "S\ta\t*\ta1:i:3", "S\tb\t*"            # (a tag name may end in a digit)
S2a, S2b = "S\ta\t10\t*", "S\tb\t10\t*\tx9:Z:q"
L, P, C = "L\ta\t+\tb\t+\t*", "P\tp\ta+,b+\t*", "C\ta\t+\tb\t+\t0\t*"
E, G, O = "E\te\ta+\tb+\t5\t10$\t0\t5\t*", "G\tg\ta+\tb+\t5\t*", "O\to\ta+ b+"
X, CM, HN = "X\t1\t2", "#\tcomment", "H\txx:i:1"
H1, H2, H3 = "H\tVN:Z:1.0", "H\tVN:Z:2.0", "H\tVN:Z:3.0"

DOCS5 = [
  [S1a, S1b, L, P, H1],          # pure GFA1 with VN
  [S1a, S1b, L, C, CM],          # pure GFA1, no VN
  [S2a, S2b, E, X, H2],          # pure GFA2 with VN
  [S2a, S2b, E, O, HN],          # pure GFA2, no VN
  [HN, CM, "H\tyy:Z:a", "#\tc2", "H\tzz:i:2"],   # version neutral
  [S1a, S1b, L, E, CM],          # mixed: L and E
  [S1a, S2b, CM, HN, "#\tx"],    # mixed: both segment syntaxes
  [S1a, S1b, L, X, HN],          # custom record with GFA1 lines
  [S1a, S1b, L, H2, CM],         # VN contradicts content
  [S2a, S2b, E, H3, CM],         # unsupported VN
  [S2a, S2b, L, "U\tu\ta b", CM],       # mixed: the GFA2-only record is a set ...
  [S2a, S2b, C, "O\to\ta+ b+", HN],     # ... an ordered group
  [S2a, S2b, P, G, CM],                # ... a gap
  [S2a, S2b, L, "F\ta\tr+\t0\t1\t0\t1\t*", X],   # ... a fragment
  [S1a, S1b, L, C, "U\tu\ta b"],        # GFA1 document with one set line
]
DOCS6 = [
  [S1a, S1b, L, P, C, H1],
  [S2a, S2b, E, G, O, X],
  [S1a, S1b, L, P, H1, E],
  [S2a, S2b, E, G, H2, L],
]
VERS = [None, "gfa1", "gfa2"]
ND5 = len(DOCS5)

def expected(doc, version, dialect="standard"):
  """order-free: -> 'gfa1' | 'gfa2' | 'VersionError' (DESIGN.md A4)"""
  kinds = set()
  if version is not None: kinds.add(version)
  if dialect == "rgfa": kinds.add("gfa1")
  for t in doc:
    f = t.split("\t")
    rt = f[0]
    if rt in ("L", "C", "P"): kinds.add("gfa1")
    elif rt in ("E", "F", "G", "O", "U"): kinds.add("gfa2")
    elif rt == "S":
      npos = len([x for x in f[1:] if not (len(x) > 4 and x[2] == ":" and x[4] == ":")])
      kinds.add("gfa1" if npos == 2 else "gfa2")
    elif rt == "H":
      for x in f[1:]:
        if x.startswith("VN:Z:"):
          if x == "VN:Z:1.0": kinds.add("gfa1")
          elif x == "VN:Z:2.0": kinds.add("gfa2")
          else: return "VersionError"
    elif rt[0] == "#":
      pass
    else:
      kinds.add("gfa2")       # custom records exist in GFA2 only
  if len(kinds) == 2: return "VersionError"
  if len(kinds) == 1: return list(kinds)[0]
  return "gfa2"

def _norm_lines(doc):
  out = []
  for t in doc:
    f = t.split("\t")
    if f[0] == "H":
      out += ["H\t" + x for x in f[1:]]
    else:
      out.append(t)
  return sorted(canon_text(t) for t in out)

def _check(doc, lines, version, vlevel, tag):
  exp = expected(doc, version)
  try:
    g = gfapy.Gfa(lines, version=version, vlevel=vlevel)
  except gfapy.VersionError:
    vp.reached(tag, "VersionError", exp)
    return exp == "VersionError"
  vp.reached(tag, g.version, exp)
  if g.version != exp: return False
  with NoTracing():
    # every line (queued or not) was added exactly once
    got = sorted(canon_text(line_text(l)) for l in g.lines)
    if got != _norm_lines(doc): return False
    if g._line_queue: return False
  return True

NV = vp.T(1, 3)

def h_version_perm(d: int, code: int, v: int, vl: int) -> bool:
  """
  pre: 0 <= d < ND5 and 0 <= code < 120 and 0 <= v < 3 and 1 <= vl <= NV
  pre: (code + d) % NPART == PART
  post: _ == True
  """
  vp.enter("vp")
  doc = vp.pick(DOCS5, d)
  p = vp.perm_from(code, 5)
  return _check(doc, [doc[i] for i in p], vp.pick(VERS, v), vp.concretize(vl, 1, 3), "vp")

def h_version_six(d: int, code: int, v: int) -> bool:
  """
  pre: 0 <= d < 4 and 0 <= code < 720 and 0 <= v < 3
  pre: (code + d) % NPART == PART
  post: _ == True
  """
  vp.enter("v6")
  doc = vp.pick(DOCS6, d)
  p = vp.perm_from(code, 6)
  return _check(doc, [doc[i] for i in p], vp.pick(VERS, v), 1, "v6")

RS = "S\ta\tAC\tSN:Z:chr1\tSO:i:0\tSR:i:0"
RS2 = "S\tb\tGT\tSN:Z:chr1\tSO:i:2\tSR:i:0"
RL = "L\ta\t+\tb\t+\t0M"
DOCSR = [[RS, RS2, RL], [RS, RL, RS2, CM], [S2a, S2b, E], [RS, RS2, RL, H1], [S1a, S1b, L], [RS, RS2, RL, X]]
ENTRY = ["list", "string", "file"]

# the files are written at import time (CrossHair's audit wall only allows reading during analysis)
import atexit, os, shutil, tempfile
_TMP = tempfile.mkdtemp(prefix="verif-c13-")
atexit.register(shutil.rmtree, _TMP, True)
_FILES = {}
for _d, _doc in enumerate(DOCSR):
  for _rev in (False, True):
    _p = os.path.join(_TMP, "d%d%d.gfa" % (_d, _rev))
    with open(_p, "w") as _f:
      _f.write("\n".join(_doc[::-1] if _rev else _doc) + "\n")
    _FILES[(_d, _rev)] = _p

def h_dialect_file(d: int, rg: bool, v: int, en: int, rev: bool) -> bool:
  """
  pre: 0 <= d < 6 and 0 <= v < 3 and 0 <= en < 3
  pre: d % NPART == PART % 4
  post: _ == True
  """
  vp.enter("df")
  d = vp.concretize(d, 0, 5)
  doc = list(DOCSR[d])
  if rev: doc = doc[::-1]
  version = vp.pick(VERS, v)
  dialect = "rgfa" if rg else "standard"
  entry = vp.pick(ENTRY, en)
  exp = expected(doc, version, dialect)
  try:
    if entry == "list":
      g = gfapy.Gfa(doc, version=version, dialect=dialect)
    elif entry == "string":
      g = gfapy.Gfa("\n".join(doc), version=version, dialect=dialect)
    else:
      g = gfapy.Gfa.from_file(_FILES[(d, rev)], version=version, dialect=dialect)
  except gfapy.Error as e:
    vp.reached("df", type(e).__name__, exp)
    return _refusal_ok(e, exp, doc, dialect)
  vp.reached("df", g.version, exp)
  return g.version == exp

def _refusal_ok(e, exp, doc, dialect):
  if isinstance(e, gfapy.VersionError):
    return exp == "VersionError"
  # rGFA restrictions other than the version (no H/P/C, mandatory tags, 0M) are C04's subject
  return dialect == "rgfa" and exp != "VersionError"
