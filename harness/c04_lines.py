"""C04 (E1): decoders, record-level and cross-field rules, acceptance consistency."""
import re
from vlib import vp
from vlib.vp import gfapy, NoTracing
from spec import gfa_grammar as G

NPART = vp.NPART
PART = vp.PART
MAXLEN = vp.T(3, 4)

META = {
 "property": "C04",
 "harnesses": {
  "h_decode_short": {"kind": "K",
    "functions": ["gfapy.field.parser.Parser._parse_gfa_field (safe)", "gfapy/field/<datatype>.decode for i, f, optional_integer, position_gfa1, position_gfa2, alignment_gfa1, alignment_gfa2, H, B, J, A, Z, orientation, oriented_identifier_gfa2, sequence_gfa1, segment_name_gfa1",
                  "LastPos._from_string", "Alignment._from_string", "CIGAR._from_string", "Trace._from_string", "NumericArray.from_string", "ByteArray.__new__"],
    "bounds": "every string of length <= 3 (quick) / <= 4 (thorough) without newline (newline behaviour: E2), one datatype per partition: safe decode accepts iff the independent grammar does (H: grammar and even length; B: grammar and values inside the subtype range)",
    "timeout": {"quick": 300, "thorough": 900}, "parts": {"quick": 16, "thorough": 16}},
  "h_decode_alphabet": {"kind": "K",
    "functions": ["gfapy/field/byte_array.decode", "numeric_array.decode", "float.decode", "json.decode", "ByteArray.__new__", "NumericArray.from_string"],
    "bounds": "H, B, f, J: every string of length <= 2 (quick) / <= 3 (thorough) over a per-datatype alphabet of up to 16 characters (hex digits upper/lower case, subtype letters, signs, digits around the range limits, '.', exponent, 'inf'/'nan' letters, JSON punctuation), indices chosen by the solver",
    "timeout": {"quick": 300, "thorough": 900}, "parts": {"quick": 16, "thorough": 16}},
  "h_path_overlaps": {"kind": "L",
    "functions": ["gfapy.line.group.path.validation.Validation._validate_lists_size", "Line.__init__", "Gfa.__init__/validate", "path References._compute_required_links"],
    "bounds": "P lines with 1..4 segments and 1..5 overlaps (all CIGARs, or all '*', or a single '*'), as a line and inside a Gfa that defines the segments and links, vlevel 1..3: accepted iff the overlap list is a single '*', or has one entry per junction (n-1), or one per junction of a circular path (n)",
    "timeout": {"quick": 300, "thorough": 600}, "parts": {"quick": 8, "thorough": 8}},
  "h_b_bounds": {"kind": "K",
    "functions": ["gfapy.field.numeric_array.decode/validate_encoded", "NumericArray.from_string (range check)", "NumericArray.validate/compute_subtype"],
    "bounds": "B strings '<subtype>,<v>' and '<subtype>,0,<v>' for every integer subtype letter and v = bound + d for every bound in {0, 127, 128, 255, 256, 32767, 32768, 65535, 65536, 2^31-1, 2^31, 2^32-1, 2^32, -1, -128, -129, -32768, -32769, -2^31, -2^31-1}, d in -1..1: decoded iff v lies in the range of the declared subtype",
    "timeout": {"quick": 300, "thorough": 600}, "parts": {"quick": 8, "thorough": 8}},
  "h_positions": {"kind": "K",
    "functions": ["edge gfa2 Validation._validate_record_type_specific_info/validate_positions", "fragment Validation._validate_record_type_specific_info/validate_positions",
                  "gfa2 AlignmentType._substring_type", "LastPos", "Gfa.validate/__validate_gfa2_positions", "Line.__init__/validate"],
    "bounds": "E and F lines whose first interval is (b[$], e[$]) with b, e ANY integers 0..6 and both '$' flags, on a segment of length slen = 1..5 with sequence '*' or 'ACGT' (slen need not be the sequence length); as a line on its own (begin <= end, '$' on begin implies '$' on end) and inside a Gfa that defines the segments (additionally: no position beyond slen, '$' exactly on position slen); second interval likewise for the F external positions; the validation level 1..3 is a fixed function of the other choices (every level occurs with every rule)",
    "timeout": {"quick": 400, "thorough": 900}, "parts": {"quick": 16, "thorough": 16}},
  "h_record_rules": {"kind": "L",
    "functions": ["Construction.__init__/_initialize_positional_fields/_initialize_tags/_initialize_tag", "Validate._validate_record_type_specific_info",
                  "segment LengthGFA1.validate_length", "path Validation", "edge gfa2 Validation.validate_positions", "fragment Validation", "Line.validate/validate_field"],
    "bounds": "per record type (S1,S2,L,C,P,E,G,F,O,U,H): number of positional fields 0..n+2; duplicate tag names; predefined tag with every datatype letter; LN:i:<n> vs sequence of length 0..4 (n any integer 0..99); path with 1..4 segments and 0..5 overlaps (cross-field position rules: h_positions); vlevel 1..3",
    "timeout": {"quick": 300, "thorough": 900}, "parts": {"quick": 16, "thorough": 16}},
 },
}

DTS = ["i", "optional_integer", "position_gfa1", "position_gfa2", "alignment_gfa1", "alignment_gfa2", "A", "Z",
       "orientation", "oriented_identifier_gfa2", "sequence_gfa1", "segment_name_gfa1", "path_name_gfa1", "identifier_list_gfa2",
       "oriented_identifier_list_gfa1", "alignment_list_gfa1"]
NDT = len(DTS)

def _real_accepts(dt, s):
  try:
    gfapy.Field._parse_gfa_field(s, dt, safe=True)
    return True
  except gfapy.Error:
    return False

def _b_in_range(s):
  rng = {"c": (-128, 127), "C": (0, 255), "s": (-32768, 32767), "S": (0, 65535), "i": (-2**31, 2**31 - 1), "I": (0, 2**32 - 1)}
  if s[0] == "f": return True
  lo, hi = rng[s[0]]
  return all(lo <= int(x) <= hi for x in s.split(",")[1:])

def h_decode_short(dti: int, s: str) -> bool:
  """
  pre: 0 <= dti < NDT
  pre: dti % NPART == PART
  pre: len(s) <= MAXLEN and "\\n" not in s
  post: _ == True
  """
  vp.enter("dec")
  dt = DTS[vp.concretize(dti, 0, NDT - 1)]
  if dt == "oriented_identifier_list_gfa1" and ("," in s):
    # the GFA1 name syntax admits ',' inside names, which makes a comma-separated list ambiguous:
    # lists are compared on comma-free names only (single-element lists included)
    if re.search(r"(^|,)[+-]?(,|$)", s) or re.search(r"[+-],[^,]*,", s) is None and s.count(",") > 1: return True
  real = _real_accepts(dt, s)
  want = G.accepts(dt, s)
  vp.reached("dec", dt, real)
  return real == want

# values that reach C code (binascii, float(), json) are realised by CrossHair: their strings are built from
# per-datatype alphabets by solver-chosen indices instead (finite domain, every combination explored)
ALPHA = {"H": "09AFaf G", "B": "fCcsSiI,-+0195.e", "f": "0159.eE+-infa_ ", "J": "[]{}\"a:,1 n"}
ADTS = ["H", "B", "f", "J"]
ALEN = vp.T(2, 3)

def h_decode_alphabet(dti: int, n: int, c0: int, c1: int, c2: int, c3: int) -> bool:
  """
  pre: 0 <= dti < 4 and 0 <= n <= ALEN
  pre: 0 <= c0 < 16 and 0 <= c1 < 16 and 0 <= c2 < 16 and 0 <= c3 < 16
  pre: (n > 0 or c0 == 0) and (n > 1 or c1 == 0) and (n > 2 or c2 == 0) and (n > 3 or c3 == 0)
  pre: (c0 + 4 * dti) % NPART == PART
  post: _ == True
  """
  vp.enter("deca")
  dt = ADTS[vp.concretize(dti, 0, 3)]
  alpha = ALPHA[dt]
  k = vp.concretize(n, 0, ALEN)
  idx = [vp.concretize(c, 0, 15) for c in (c0, c1, c2, c3)][:k]
  if any(i >= len(alpha) for i in idx): return True
  if any(i != 0 for i in [vp.concretize(c, 0, 15) for c in (c0, c1, c2, c3)][k:]): return True   # canonical padding
  with NoTracing():
    s = "".join(alpha[i] for i in idx)      # a plain str built from the concretised indices
  real = _real_accepts(dt, s)
  vp.reached("deca", dt, s, real)
  with NoTracing():
    want = G.accepts(dt, s)
    if dt == "H": want = want and len(s) % 2 == 0
    if dt == "B": want = want and _b_in_range(s)
  return real == want

# ---------------------------------------------------------------------------
TEMPL = {
  "S1": (["S", "a", "ACGT"], "gfa1"), "S2": (["S", "a", "4", "ACGT"], "gfa2"),
  "L": (["L", "a", "+", "b", "-", "2M"], "gfa1"), "C": (["C", "a", "+", "b", "-", "1", "2M"], "gfa1"),
  "P": (["P", "p", "a+,b-", "2M"], "gfa1"), "E": (["E", "e", "a+", "b-", "0", "2", "2", "4$", "2M"], "gfa2"),
  "G": (["G", "g", "a+", "b-", "5", "*"], "gfa2"), "F": (["F", "a", "r+", "0", "2", "0", "2", "*"], "gfa2"),
  "O": (["O", "o", "a+ b-"], "gfa2"), "U": (["U", "u", "a b"], "gfa2"), "H": (["H"], None),
}
KEYS = sorted(TEMPL)
NK = len(KEYS)
TAGS = ["xx:i:1", "xx:Z:a", "yy:f:1.5", "LN:i:4", "KC:i:2", "VN:Z:1.0", "TS:i:5", "x:i:1", "1x:i:1", "xx:Q:1", "RC:Z:a", "LN:Z:4", "xx:i:", "LN:i:0", "LN:i:+4"]

def h_record_rules(ki: int, npos: int, t1: int, t2: int, vl: int) -> bool:
  """
  pre: 0 <= ki < NK and 0 <= npos <= 11 and 0 <= t1 < 16 and 0 <= t2 < 16 and 1 <= vl <= 3
  pre: (ki + t1) % NPART == PART
  post: _ == True
  """
  vp.enter("rec")
  key = KEYS[vp.concretize(ki, 0, NK - 1)]
  fields, version = TEMPL[key]
  n = len(fields) - 1
  k = vp.concretize(npos, 0, 11)
  if k > n + 2: return True
  pos = fields[1:1 + k] + ["zz"] * max(0, k - n)
  tags = [TAGS[i] for i in (vp.concretize(t1, 0, 15), vp.concretize(t2, 0, 15)) if i < 15]
  text = "\t".join([fields[0]] + pos + tags)
  level = vp.concretize(vl, 1, 3)
  try:
    l = gfapy.Line(text, vlevel=level, version=version)
    accepted = True
  except gfapy.Error:
    accepted = False
  with NoTracing():
    want = _record_ok(key, fields, k, n, tags, pos + tags)
  vp.reached("rec", key, k, tags, accepted, want)
  if accepted != want: return False
  if accepted:
    # whatever is accepted passes the explicit validations
    l.validate()
    for f in l.positional_fieldnames + l.tagnames:
      l.validate_field(f)
  return True

PREDEF = {"S1": {"LN": "i", "RC": "i", "FC": "i", "KC": "i", "SH": "H", "UR": "Z"}, "S2": {"RC": "i", "FC": "i", "KC": "i", "SH": "H", "UR": "Z"},
          "L": {"MQ": "i", "NM": "i", "RC": "i", "FC": "i", "KC": "i", "ID": "Z"}, "C": {"MQ": "i", "NM": "i", "ID": "Z"}, "P": {},
          "E": {"TS": "i"}, "G": {}, "F": {"TS": "i"}, "O": {}, "U": {}, "H": {"VN": "Z", "TS": "i"}}

POSDT = {
  "S1": ["segment_name_gfa1", "sequence_gfa1"], "S2": ["identifier_gfa2", "i", "sequence_gfa2"],
  "L": ["segment_name_gfa1", "orientation", "segment_name_gfa1", "orientation", "alignment_gfa1"],
  "C": ["segment_name_gfa1", "orientation", "segment_name_gfa1", "orientation", "position_gfa1", "alignment_gfa1"],
  "P": ["path_name_gfa1", "oriented_identifier_list_gfa1", "alignment_list_gfa1"],
  "E": ["optional_identifier_gfa2", "oriented_identifier_gfa2", "oriented_identifier_gfa2", "position_gfa2", "position_gfa2",
        "position_gfa2", "position_gfa2", "alignment_gfa2"],
  "G": ["optional_identifier_gfa2", "oriented_identifier_gfa2", "oriented_identifier_gfa2", "i", "optional_integer"],
  "F": ["identifier_gfa2", "oriented_identifier_gfa2", "position_gfa2", "position_gfa2", "position_gfa2", "position_gfa2", "alignment_gfa2"],
  "O": ["optional_identifier_gfa2", "oriented_identifier_list_gfa2"], "U": ["optional_identifier_gfa2", "identifier_list_gfa2"], "H": [],
}

def _record_ok(key, fields, k, n, tags, allf=None):
  """independent statement of the record-level rules: the first n fields are the
  positional fields of the record type (whatever they look like), the rest are tags"""
  allf = allf if allf is not None else []
  if len(allf) < n: return False                # not enough positional fields
  pos, tags = allf[:n], allf[n:]
  for dt, v in zip(POSDT[key], pos):
    if not G.accepts(dt, v): return False
  if key == "P":
    nseg, nov = len(pos[1].split(",")), len(pos[2].split(","))
    if not (pos[2] == "*" or nov == nseg - 1 or nov == nseg): return False
  if key in ("E", "F"):
    def pv(x): return int(x.rstrip("$"))
    if key == "E" and (pv(pos[3]) > pv(pos[4]) or pv(pos[5]) > pv(pos[6])): return False
    if key == "F" and (pv(pos[2]) > pv(pos[3]) or pv(pos[4]) > pv(pos[5])): return False
  names = []
  for t in tags:
    m = re.fullmatch(r"([A-Za-z][A-Za-z0-9]):([AifZJHB]):(.+)", t)
    if not m: return False                      # well-formed tag
    nm, dt, val = m.groups()
    if nm in names: return False                # unique tag names
    names.append(nm)
    if not G.accepts(dt, val): return False
    pre = PREDEF[key]
    if nm in pre and pre[nm] != dt: return False   # predefined tags with their prescribed type
    if key == "S1" and nm == "LN" and pos[1] != "*" and int(val) != len(pos[1]): return False
  return True


# ---------------------------------------------------------------------------
def h_path_overlaps(nseg: int, nov: int, kind: int, vl: int, ingfa: bool) -> bool:
  """
  pre: 1 <= nseg <= 4 and 1 <= nov <= 5 and 0 <= kind <= 2 and 1 <= vl <= 3
  pre: (nseg + 4 * kind) % NPART == PART
  post: _ == True
  """
  vp.enter("po")
  ns = vp.concretize(nseg, 1, 4); no = vp.concretize(nov, 1, 5); k = vp.concretize(kind, 0, 2)
  level = vp.concretize(vl, 1, 3)
  segs = ["a", "b", "c", "d"][:ns]
  ov = ["1M", "*", "2M"][k]
  text = "P\tp\t" + ",".join(x + "+" for x in segs) + "\t" + ",".join([ov] * no)
  want = (ov == "*" and no == 1) or no == ns - 1 or (no == ns and ns > 1)
  if ns == 1 and no == 1:
    want = True                                   # one segment, one overlap: '*' or the circular reading
  vp.reached("po", ns, no, ov, level, ingfa)
  if not ingfa:
    try:
      l = gfapy.Line(text, vlevel=level, version="gfa1")
      l.validate()
      return want
    except gfapy.Error:
      return not want
  doc = ["S\t" + x + "\t*" for x in segs] + \
        ["L\t" + segs[i] + "\t+\t" + segs[(i + 1) % ns] + "\t+\t" + ov for i in range(ns if ns > 1 else 0)]
  try:
    g = gfapy.Gfa(doc + [text], vlevel=level)
    g.validate()
    return want
  except gfapy.Error:
    return not want

B_BOUNDS = [0, 127, 128, 255, 256, 32767, 32768, 65535, 65536, 2**31 - 1, 2**31, 2**32 - 1, 2**32,
            -1, -128, -129, -32768, -32769, -2**31, -2**31 - 1]
B_RANGE = {"c": (-128, 127), "C": (0, 255), "s": (-32768, 32767), "S": (0, 65535), "i": (-2**31, 2**31 - 1), "I": (0, 2**32 - 1)}
B_TYPES = ["c", "C", "s", "S", "i", "I"]

def h_b_bounds(ti: int, bi: int, d: int, two: bool) -> bool:
  """
  pre: 0 <= ti < 6 and 0 <= bi < 20 and -1 <= d <= 1
  pre: (ti + bi) % NPART == PART
  post: _ == True
  """
  vp.enter("bb")
  st = B_TYPES[vp.concretize(ti, 0, 5)]
  v = B_BOUNDS[vp.concretize(bi, 0, 19)] + vp.concretize(d, -1, 1)
  with NoTracing():
    s = st + "," + ("0," if two else "") + str(v)
  lo, hi = B_RANGE[st]
  want = lo <= v <= hi and not (st in "CSI" and v < 0)
  real = _real_accepts("B", s)
  vp.reached("bb", s, real)
  if real != want: return False
  if real:
    # what is accepted also validates, and is written with a subtype that holds the value
    with NoTracing():
      l = gfapy.Line("S\ta\t*\txx:B:" + s, vlevel=1)
    l.validate()
    w = l.field_to_s("xx")
    wl, wh = B_RANGE[w[0]]
    return wl <= v <= wh
  return True


def h_positions(slen: int, hasseq: bool, b: int, e: int, db: bool, de: bool, frag: bool, ext: bool, conn: bool, vl: int) -> bool:
  """
  pre: 1 <= slen <= 5 and 0 <= b <= 6 and 0 <= e <= 6 and 1 <= vl <= 3
  pre: frag or not ext
  pre: vl == 1 + (b + e + slen) % 3
  pre: (b * 7 + e + slen) % NPART == PART
  post: _ == True
  """
  vp.enter("pos")
  L = vp.concretize(slen, 1, 5)
  bb, ee = vp.concretize(b, 0, 6), vp.concretize(e, 0, 6)
  level = vp.concretize(vl, 1, 3)
  with NoTracing():
    p1, p2 = str(bb) + ("$" if db else ""), str(ee) + ("$" if de else "")
    seg1 = "S\t1\t" + str(L) + "\t" + ("ACGT" if hasseq else "*")
    seg2 = "S\t2\t5\t*"
    if not frag:
      text = "E\t*\t1+\t2+\t" + p1 + "\t" + p2 + "\t0\t2\t*"
    elif ext:
      text = "F\t1\tr+\t0\t" + str(L) + "$\t" + p1 + "\t" + p2 + "\t*"       # positions on the external sequence
    else:
      text = "F\t1\tr+\t" + p1 + "\t" + p2 + "\t0\t2\t*"
  # the rules a line can be checked for on its own
  alone = bb <= ee and (de or not db)
  unspecified = alone and db and de and bb < ee          # 'b$ e$' with b < e: one of them is wrong, which one is not decidable
  if conn and not ext:
    want = bb <= ee <= L and db == (bb == L) and de == (ee == L)
  else:
    want = alone
  try:
    if conn:
      g = gfapy.Gfa([seg1, seg2, text], vlevel=level)
      g.validate()
      for l in g.lines: l.validate()
    else:
      l = gfapy.Line(text, vlevel=level)
      l.validate()
    real = True
  except gfapy.Error:
    real = False
  vp.reached("pos", text, conn, level, real, want)
  if real == want: return True
  if unspecified and not (conn and not ext): return True
  if real and not want and alone and vp.kf_active("KF-C04-positions-vs-slen"):
    # listed finding: inside a Gfa a position is not compared with slen, except a '$' position when the segment has a sequence
    dollar_ok = (not db or bb == L) and (not de or ee == L)
    if not hasseq or dollar_ok: return True
  return False
