"""C10: read-only operations never modify anything."""
from vlib import vp
from vlib.vp import gfapy, NoTracing
from spec.observe import observe, diff_obs, line_text

NPART = vp.NPART
PART = vp.PART
THOROUGH = not vp.QUICK

META = {
 "property": "C10",
 "harnesses": {
  "h_pure_gfa1": {"kind": "G",
    "functions": ["every query of the catalogue Q1 (string conversion, field/tag reads, validate*, clone, ==, diff, CIGAR complement/length, link complement/is_*/is_compatible*, _search_link/select/finders, neighbourhood properties, other/other_end, is_cut_*, connected_components, linear_path(s), captured_path, to_gfa2_s of lines, str without sequence)"],
    "bounds": "3 GFA1 states (asymmetric I/D CIGARs on links, containments, paths along/against links incl. a circular one, header with repeated tags, vlevel 1 and 3) x every query q1 of the catalogue called twice x follow-up query q2 (quick: 3 observer queries on the richest state, str(gfa) on the other two; thorough: additionally a quarter of all (q1, q2) pairs of the catalogue on the richest state): written form and full observation unchanged, repeated answers equal",
    "timeout": {"quick": 400, "thorough": 900}, "parts": {"quick": 16, "thorough": 16}},
  "h_pure_gfa2": {"kind": "G",
    "functions": ["every query of the catalogue Q2 (as Q1 plus E/G/F/O/U accessors, captured_path/segments/edges, induced_set/segments/edges, validate_positions, to_gfa1_s of lines, overlap/pos of E lines, custom records)"],
    "bounds": "3 GFA2 states (E dovetail/containment/internal with asymmetric CIGARs and a trace, G, F, nested O/U, custom record, vlevel 1 and 3) x q1 twice x q2 as above",
    "timeout": {"quick": 400, "thorough": 900}, "parts": {"quick": 16, "thorough": 16}},
 },
 "scripts": {"s_catalogue_covers_api": {"entry": "s_catalogue_covers_api", "timeout": 120}},
}

ST1 = [
 (["H\tVN:Z:1.0\tab:i:1", "H\tab:i:2", "S\ta\tACGTAC\tRC:i:12", "S\tb\tGTCA\tLN:i:4", "S\tc\t*\tLN:i:9", "S\td\t*",
   "L\ta\t+\tb\t-\t1M1D2M\tID:Z:l1\tKC:i:3", "L\tb\t-\tc\t+\t2I1M", "L\tc\t+\ta\t+\t1M", "C\tc\t+\tb\t-\t2\t1M1I1D2M",
   "P\tp1\ta+,b-,c+\t1M1D2M,2I1M", "P\tp2\tc-,b+\t*", "P\tp3\ta+,b-,c+\t1M1D2M,2I1M,1M", "#\tcomment"], 1),
 (["S\ta\t*", "S\tb\t*", "S\tc\t*", "L\ta\t+\ta\t-\t2M1I", "L\tb\t+\tc\t+\t2M", "L\tb\t+\tc\t+\t3M1D", "L\ta\t-\tb\t+\t1D1M",
   "C\ta\t-\tc\t+\t0\t*", "P\tp1\ta-,b+,c+\t1D1M,3M1D\tzz:J:{\"k\": [1, 2]}"], 3),
 (["S\t1\tAAAC\tSH:H:AF01", "S\t2\tACCC\tUR:Z:x y", "S\t3\t*\tLN:i:3\tff:f:2.5", "L\t1\t+\t2\t+\t1M2D1M\tNM:i:1",
   "L\t2\t+\t3\t-\t1I1M", "C\t1\t+\t3\t+\t1\t3M", "P\t7\t1+,2+,3-\t1M2D1M,1I1M\tba:B:C,1,2"], 2),
]
ST2 = [
 (["H\tVN:Z:2.0", "S\ta\t10\t*", "S\tb\t10\tACGTACGTAC", "S\tc\t10\t*",
   "E\te1\ta+\tb-\t6\t10$\t6\t10$\t1M1D2M1I", "E\te2\tb-\tc+\t0\t3\t0\t3\t2M1D1I", "E\te3\ta+\tc+\t2\t6\t0\t10$\t*",
   "E\te4\ta-\tc-\t2\t5\t3\t6\t1,2\tTS:i:3", "G\tg1\ta+\tc-\t5\t*", "F\ta\tread+\t0\t4\t0\t4$\t2M1I1M1D",
   "O\to1\ta+ b- c+", "O\to2\to1- a-", "O\to3\te2- e1-", "U\tu1\ta e2 o1 g1", "U\tu2\tu1 c", "X\tcustom\tfield\txx:i:1"], 1),
 (["S\ta\t10\t*", "S\tb\t10\t*", "E\t*\ta+\tb+\t5\t10$\t0\t5\t3M2I2D", "E\te2\ta+\ta-\t7\t10$\t7\t10$\t2M1I",
   "O\to1\ta+ e2+ a-", "U\t*\ta b", "F\tb\tr-\t1\t3\t0\t2\t*", "G\t*\ta-\tb+\t10\t2"], 3),
 (["S\t1\t8\t*", "S\t2\t8\t*", "S\t3\t8\t*", "E\t10\t1+\t2+\t4\t8$\t0\t4\t1D3M1I", "E\t11\t2+\t3-\t5\t8$\t5\t8$\t3M",
   "E\t12\t1+\t3+\t0\t8$\t0\t8$\t8M", "O\t20\t1+ 10+ 2+ 11+ 3-", "O\t21\t20-", "O\t22\t11- 10-", "U\t30\t20 21 12", "#\tc"], 2),
]

def _n(v, depth=0):
  """normalised, comparable rendering of a query result"""
  if isinstance(v, gfapy.Line): return "<" + line_text(v) + ">"
  if isinstance(v, gfapy.OrientedLine): return "OL(" + _n(v.line) + "," + str(v.orient) + ")"
  if isinstance(v, gfapy.SegmentEnd): return "SE(" + _n(v.segment) + "," + str(v.end_type) + ")"
  if isinstance(v, (list, tuple)) and not isinstance(v, (gfapy.CIGAR, gfapy.Trace)): return [_n(x, depth + 1) for x in v]
  if isinstance(v, (set, frozenset)): return sorted(str(_n(x)) for x in v)
  if isinstance(v, dict): return sorted((str(k), str(_n(x))) for k, x in v.items())
  if isinstance(v, gfapy.Gfa): return str(v)
  return str(v)

def _each(g, f):
  out = []
  for l in g.lines:
    try:
      out.append(_n(f(l)))
    except Exception as e:
      out.append("ERR:" + type(e).__name__)
  return out

def _sel(g, rts):
  return [l for l in g.lines if l.record_type in rts]

def _on(rts, f):
  def q(g):
    out = []
    for l in _sel(g, rts):
      try:
        out.append(_n(f(l)))
      except Exception as e:
        out.append("ERR:" + type(e).__name__)
    return out
  return q

def _pairs(rts, f):
  def q(g):
    ls = _sel(g, rts); out = []
    for a in ls:
      for b in ls:
        try:
          out.append(_n(f(a, b)))
        except Exception as e:
          out.append("ERR:" + type(e).__name__)
    return out
  return q

def _aln(l):
  for fn in ("overlap", "alignment"):
    if fn in l.positional_fieldnames: return l.get(fn)
  return None

COMMON = [
 ("str(gfa)", lambda g: str(g)),
 ("str(line)", lambda g: _each(g, str)),
 ("repr(line)", lambda g: _each(g, lambda l: l.__repr__())),
 ("to_list", lambda g: _each(g, lambda l: l.to_list())),
 ("get(all fields)", lambda g: _each(g, lambda l: [l.get(f) for f in l.positional_fieldnames + l.tagnames])),
 ("field_to_s", lambda g: _each(g, lambda l: [l.field_to_s(f) for f in l.positional_fieldnames] + [l.field_to_s(t, True) for t in l.tagnames])),
 ("try_get/get_datatype", lambda g: _each(g, lambda l: [(l.try_get(t), l.get_datatype(t)) for t in l.tagnames])),
 ("tagnames/positional_fieldnames", lambda g: _each(g, lambda l: (l.tagnames, l.positional_fieldnames, l.record_type, l.version))),
 ("line.validate", lambda g: _each(g, lambda l: l.validate())),
 ("validate_field", lambda g: _each(g, lambda l: [l.validate_field(f) for f in l.positional_fieldnames + l.tagnames])),
 ("gfa.validate", lambda g: g.validate()),
 ("clone", lambda g: _each(g, lambda l: str(l.clone()) if l.record_type != "H" else None)),
 ("==", lambda g: [a == b for a in g.lines[:7] for b in g.lines[:7]]),
 ("== clone", lambda g: _each(g, lambda l: l == l.clone() if l.record_type != "H" else None)),
 ("diff", lambda g: [_n(a.diff(b)) for a in g.lines[:8] for b in g.lines[:8] if a.record_type == b.record_type and a.record_type != "H"]),
 ("diffscript", lambda g: [_n(a.diffscript(b, "x")) for a in g.lines[:8] for b in g.lines[:8] if a.__class__ is b.__class__ and a.record_type not in "H#"]),
 ("alignment.complement", lambda g: _each(g, lambda l: _aln(l).complement() if _aln(l) is not None else None)),
 ("alignment lengths", lambda g: _each(g, lambda l: (_aln(l).length_on_reference(), _aln(l).length_on_query()) if isinstance(_aln(l), gfapy.CIGAR) else None)),
 ("alignment.validate", lambda g: _each(g, lambda l: _aln(l).validate() if _aln(l) is not None else None)),
 ("names", lambda g: (g.names, g.segment_names, g.edge_names, g.path_names, g.set_names, g.gap_names, g.external_names)),
 ("collections", lambda g: (g.lines, g.segments, g.edges, g.dovetails, g.containments, g.paths, g.sets, g.gaps, g.fragments, g.comments, g.custom_records, g.headers)),
 ("line()/segment()", lambda g: [(g.line(n), g.segment(n), g.line("nope")) for n in g.names]),
 ("try_get_line", lambda g: [g.try_get_line(n) for n in g.names]),
 ("select(dict)", lambda g: [g.select({"record_type": rt}) for rt in "SLCPEGFOU"]),
 ("select(line)", lambda g: _each(g, lambda l: g.select(l) if l.record_type not in "H#" else None)),
 ("all_references/refstr", lambda g: _each(g, lambda l: (l.all_references, l.refstr()))),
 ("is_connected/gfa/virtual", lambda g: _each(g, lambda l: (l.is_connected(), l.gfa is g, l.virtual))),
 ("neighbourhood", _on("S", lambda s: (s.neighbours_of_end("L"), s.gaps_of_end("R"), s.dovetails, s.dovetails_L, s.dovetails_R, s.dovetails_of_end("L"), s.containments, s.edges_to_contained,
                                         s.edges_to_containers, s.edges, s.neighbours, s.neighbours_L, s.neighbours_R, s.containers, s.contained,
                                         s.paths, s.internals, s.gaps, s.fragments, s.sets))),
 ("relations_to", _pairs("S", lambda a, b: (a.relations_to(b), a.relations_to(b.name, "dovetails")))),
 ("oriented_relations/end_relations", _pairs("S", lambda a, b: (a.oriented_relations("+", gfapy.OrientedLine(b, "-")),
                                                              a.end_relations("R", gfapy.SegmentEnd(b, "L"))))),
 ("_connectivity", _on("S", lambda s: s._connectivity())),
 ("coverage/length", _on("S", lambda s: (s.length, s.try_get_length() if s.length is not None else None, s.coverage() if s.get("RC") and s.length else None))),
 ("str without sequence", _on("S", lambda s: s.to_str_wo_sequence() if hasattr(s, "to_str_wo_sequence") else str(s))),
 ("edge ends", _on("LE", lambda e: (e.from_end, e.to_end, e.from_name, e.to_name, e.is_circular(), e.is_circular_same_end()) if e.is_dovetail() else (e.is_containment(), e.is_internal()))),
 ("edge kind", _on("LCE", lambda e: (e.is_dovetail(), e.is_containment(), e.is_internal()))),
 ("other/other_end", _on("LE", lambda e: (e.other(e.from_segment), e.other_end(e.from_end), e.other_oriented_segment(e.oriented_from if e.record_type == "L" else e.sid1)) if e.is_dovetail() else None)),
 ("from/to accessors", _on("LCE", lambda e: (e.from_segment, e.from_orient, e.to_segment, e.to_orient, e.overlap, e.oriented_from, e.oriented_to) if not e.is_internal() else None)),
 ("E-style accessors", _on("LCE", lambda e: (e.sid1, e.sid2, e.alignment, e.eid))),
 ("connected_components", lambda g: [sorted(s.name for s in c) for c in g.connected_components()]),
 ("segment_connected_component", lambda g: [sorted(x.name for x in g.segment_connected_component(s)) for s in g.segment_names]),
 ("is_cut_segment", lambda g: [g.is_cut_segment(s) for s in g.segment_names]),
 ("is_cut_link", lambda g: [g.is_cut_link(l) for l in g.dovetails]),
 ("topology counters", lambda g: (g.n_dovetails, g.n_containments, g.n_internals, g.n_dead_ends)),
 ("linear_paths", lambda g: g.linear_paths()),
 ("linear_path", lambda g: [g.linear_path(s) for s in g.segment_names]),
 ("header reads", lambda g: (str(g.header), g.header.tagnames, [g.header.get(t) for t in g.header.tagnames], g.n_input_header_lines)),
 ("version/dialect/vlevel", lambda g: (g.version, g.dialect, g.vlevel, g.is_rgfa())),
 ("to_gfa1_s/to_gfa2_s (same version)", lambda g: g.to_gfa1_s() if g.version == "gfa1" else g.to_gfa2_s()),
 ("custom_record_keys", lambda g: (g.custom_record_keys, [g.custom_records_of_type(k) for k in g.custom_record_keys])),
 ("fragments_for_external", lambda g: [g.fragments_for_external(n) for n in g.external_names + ["zz"]]),
]

Q1 = COMMON + [
 ("link.complement", _on("L", lambda l: l.complement())),
 ("link.is_canonical", _on("L", lambda l: l.is_canonical())),
 ("link equivalences", _pairs("L", lambda a, b: (a.is_same(b), a.is_complement(b), a.is_eql(b), a.are_tags_eql(b)))),
 ("link.is_compatible", _pairs("L", lambda a, b: (a.is_compatible(b.oriented_from, b.oriented_to, b.overlap),
                                                  a.is_compatible_direct(b.oriented_from, b.oriented_to, b.overlap),
                                                  a.is_compatible_complement(b.oriented_to.inverted(), b.oriented_from.inverted(), b.overlap.complement())))),
 ("_search_link", lambda g: [_n(g._search_link(l.oriented_to.inverted(), l.oriented_from.inverted(), l.overlap.complement())) for l in g.dovetails]),
 ("_search_duplicate", lambda g: _each(g, lambda l: g._search_duplicate(l) if l.record_type in "SLP" else None)),
 ("link coords", _on("LC", lambda l: (l.from_coords, l.to_coords, l.beg1, l.end1, l.beg2, l.end2) if l.from_segment.length and l.to_segment.length and not gfapy.is_placeholder(l.overlap) else None)),
 ("containment pos", _on("C", lambda c: (c.pos, c.rpos if not gfapy.is_placeholder(c.overlap) else None, c.container, c.contained, c.container_orient, c.contained_orient))),
 ("path reads", _on("P", lambda p: (p.segment_names, p.overlaps, p.links, p.captured_path, p.captured_segments, p.captured_edges, p.is_circular(), p.is_linear()))),
 # (computed accessors also asked alone: a query that undoes its own side effect when run an even number of times
 #  must not hide behind the tuple above)
 ("P captured_path alone", _on("P", lambda p: p.captured_path)),
 ("P captured_edges alone", _on("P", lambda p: p.captured_edges)),
 ("path required links", _on("P", lambda p: p._compute_required_links())),
 ("segment.validate_length", _on("S", lambda s: s.validate_length())),
 ("line.to_gfa2_s", lambda g: _each(g, lambda l: l.to_gfa2_s() if l.record_type in "#H" or (l.record_type == "S" and l.length is not None) else None)),
]

Q2 = COMMON + [
 ("E overlap/pos", _on("E", lambda e: (e.overlap, e.pos if e.is_containment() else None) if not e.is_internal() else None)),
 ("E _alignment_type", _on("E", lambda e: (e._alignment_type, e._is_sid1_from() if not e.is_internal() else None))),
 ("validate_positions", _on("EF", lambda e: e.validate_positions())),
 ("E paths/sets", _on("E", lambda e: (e.paths, e.sets))),
 ("gap reads", _on("G", lambda x: (x.sid1, x.sid2, x.disp, x.var, x.sets))),
 ("fragment reads", _on("F", lambda f: (f.sid, f.external, f.s_beg, f.s_end, f.f_beg, f.f_end, f.alignment))),
 ("O captured", _on("O", lambda o: (o.items, o.captured_path, o.captured_segments, o.captured_edges, o.paths, o.sets))),
 ("O captured_path alone", _on("O", lambda o: o.captured_path)),
 ("O captured_segments alone", _on("O", lambda o: o.captured_segments)),
 ("O captured_edges alone", _on("O", lambda o: o.captured_edges)),
 ("U induced_set alone", _on("U", lambda u: u.induced_set)),
 ("U induced_edges_set alone", _on("U", lambda u: u.induced_edges_set)),
 ("U induced", _on("U", lambda u: (u.items, u.induced_set, u.induced_segments_set, u.induced_edges_set, u.sets))),
 ("line.to_gfa1_s", lambda g: _each(g, lambda l: l.to_gfa1_s() if l.record_type in "#HSEO" else None)),
 ("gfa.to_gfa1_s", lambda g: g.to_gfa1_s()),
 ("custom record reads", lambda g: [(c.record_type, c.positional_fieldnames, [c.get(f) for f in c.positional_fieldnames]) for c in g.custom_records]),
 ("trace complement", _on("E", lambda e: e.alignment.complement() if isinstance(e.alignment, gfapy.Trace) else None)),
]

OBSERVERS = ["str(gfa)", "alignment.complement", "neighbourhood"]

def _snapshot(g):
  o = observe(g)
  o["text"] = str(g)
  o["header"] = str(g.header)
  o["datatypes"] = [sorted(l._datatype.items()) for l in g.lines]
  o["fields"] = [[str(l.field_to_s(f)) for f in l.positional_fieldnames] for l in g.lines if l.record_type != "#"]
  return o

def _run(states, cat, si, q1, q2, tag):
  doc, vl = vp.pick(states, si)
  with NoTracing():
    g = gfapy.Gfa(list(doc), vlevel=vl)
    snap = _snapshot(g)
  n1, f1 = vp.pick(cat, q1)
  if q2 >= len(OBSERVERS):
    n2, f2 = vp.pick(cat, q2 - len(OBSERVERS))            # (thorough tier only)
  else:
    n2 = vp.pick(OBSERVERS, q2); f2 = [f for (n, f) in cat if n == n2][0]
  def call(f):
    try:
      return ("ok", f(g))
    except Exception as e:
      return ("err", type(e).__name__)
  r1 = call(f1)
  vp.reached(tag, si, n1, n2)
  with NoTracing():
    if diff_obs(_snapshot(g), snap): return False
  r1b = call(f1)
  with NoTracing():
    if _n(r1) != _n(r1b): return False          # asking twice gives the same answer
  r2 = call(f2)
  with NoTracing():
    if diff_obs(_snapshot(g), snap): return False
  return True

NQ1 = len(Q1)
NQ2 = len(Q2)
NOBS = len(OBSERVERS)
NO1 = (len(Q1) + NOBS) if THOROUGH else NOBS
NO2 = (len(Q2) + NOBS) if THOROUGH else NOBS

def h_pure_gfa1(si: int, q1: int, q2: int) -> bool:
  """
  pre: 0 <= si < 3 and 0 <= q1 < NQ1 and 0 <= q2 < NO1
  pre: (q2 < NOBS and (si == 0 or q2 == 0)) or (q2 >= NOBS and si == 0 and (q1 + q2) % 4 == 0)
  pre: (q1 + q2) % NPART == PART
  post: _ == True
  """
  vp.enter("p1")
  return _run(ST1, Q1, si, q1, q2, "p1")

def h_pure_gfa2(si: int, q1: int, q2: int) -> bool:
  """
  pre: 0 <= si < 3 and 0 <= q1 < NQ2 and 0 <= q2 < NO2
  pre: (q2 < NOBS and (si == 0 or q2 == 0)) or (q2 >= NOBS and si == 0 and (q1 + q2) % 4 == 0)
  pre: (q1 + q2) % NPART == PART
  post: _ == True
  """
  vp.enter("p2")
  return _run(ST2, Q2, si, q1, q2, "p2")


# ---------------------------------------------------------------------------
# the catalogue is checked against the public API by introspection: a public
# attribute that is neither exercised by a query, nor a known mutator, nor an
# excluded item (documented below) fails the check, so an added query cannot
# silently escape it
# ---------------------------------------------------------------------------
MUTATORS = {"add_line", "append", "rm", "process_line_queue", "read_file", "from_file", "to_file", "multiply", "merge_linear_path",
            "merge_linear_paths", "apply_copy_numbers", "compute_copy_numbers", "delete_low_coverage_segments",
            "enforce_all_mandatory_links", "enforce_segment_mandatory_links", "randomly_orient_invertible", "randomly_orient_invertibles",
            "remove_dead_ends", "remove_p_bubble", "remove_p_bubbles", "remove_self_link", "remove_self_links", "remove_small_components",
            "set_count_unit_length", "set_default_count_tag", "enable_progress_logging", "unused_name", "split_connected_components",
            "connect", "disconnect", "set", "delete", "set_datatype", "canonicize", "make_complement", "add", "append_item", "prepend_item",
            "rm_first_item", "rm_last_item", "add_item", "rm_item", "register_extension", "info"}
# conversion to the *other* version is documented to assign identifiers (outside C10, see DESIGN.md);
EXCLUDED = {"to_gfa1", "to_gfa2", "to_version", "to_version_s", "to_gfa1_s", "to_gfa2_s", "validate_rgfa", "stable_sequence_names",
            "to_str", "dialect"}

def s_catalogue_covers_api():
  import json, os, inspect
  src = open(__file__).read()
  missing = []
  classes = [gfapy.Gfa, gfapy.line.segment.GFA1, gfapy.line.segment.GFA2, gfapy.line.edge.Link, gfapy.line.edge.Containment,
             gfapy.line.edge.GFA2, gfapy.line.group.Path, gfapy.line.group.Ordered, gfapy.line.group.Unordered, gfapy.line.Gap,
             gfapy.line.Fragment, gfapy.line.Header, gfapy.line.Comment, gfapy.line.CustomRecord]
  n = 0
  for cls in classes:
    for name in dir(cls):
      if name.startswith("_") or name.isupper() or name.startswith("try_get_"): continue
      if name in cls.DATATYPE if hasattr(cls, "DATATYPE") and cls.DATATYPE else False: continue
      attr = inspect.getattr_static(cls, name)
      if not (callable(attr) or isinstance(attr, property) or hasattr(attr, "__get__")): continue
      if name[0].isupper(): continue
      n += 1
      if name in MUTATORS or name in EXCLUDED: continue
      if ("." + name) in src or ("\"" + name + "\"") in src: continue
      missing.append(cls.__name__ + "." + name)
  res = {"obligations": 1, "discharged": 0 if missing else 1, "evaluations": n, "distinct_nontrivial": n,
         "samples": [{"public_attributes_checked": n, "catalogue_sizes": [len(Q1), len(Q2)]}],
         "functions": ["introspection of the public API of Gfa and the Line classes"], "bounds": "all public attributes", "queries": 0, "solver_s": 0.0,
         "errors": ["public API not covered by the read-only catalogue nor listed as mutator: " + ", ".join(sorted(set(missing)))] if missing else []}
  json.dump(res, open(os.environ["VERIF_OUT"], "w"))
