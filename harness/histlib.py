"""History engine shared by C02, C05, C08, C09, C16: a concrete base state, a
sequence of symbolic (op, a, b) steps applied to the real Gfa (traced by
CrossHair) and, in parallel, to the text model."""
from vlib import vp
from vlib.vp import gfapy, NoTracing
from spec.observe import observe, diff_obs, invariant, line_text, canon_text, cigar_complement_text, INV
from spec.textmodel import Doc, defined_id, record_type, fields
from spec import nbhd

BASES = {
 # two links on s1.R (fan-out in one collection), containment, path over a link
 # (the first line arrives before the segments it names: placeholder substitution happens while the base is built)
 "gfa1": ["L\ts4\t-\ts2\t+\t7M", "S\ts1\t*", "S\ts2\t*", "S\ts3\t*", "S\ts4\t*",
          "L\ts1\t+\ts2\t+\t2M", "L\ts1\t+\ts3\t-\t3M", "L\ts2\t+\ts3\t+\t1M\tID:Z:l3",
          "C\ts2\t+\ts3\t+\t0\t*", "P\tp1\ts1+,s2+\t2M", "P\tp2\ts3+,s1-\t3M"],
 # self link, hairpin (same end twice), parallel links
 "gfa1b": ["S\ts1\t*", "S\ts2\t*", "S\ts3\t*",
           "L\ts1\t+\ts1\t+\t1M", "L\ts2\t+\ts3\t+\t5M", "L\ts2\t+\ts2\t-\t2M", "L\ts1\t+\ts2\t+\t3M", "L\ts1\t+\ts2\t+\t4M",
           "C\ts1\t+\ts3\t-\t1\t*", "P\tp1\ts1+,s1+,s2+\t1M,4M"],
 "gfa2": ["E\te5\ts4-\ts2+\t0\t3\t0\t3\t*", "U\tu5\ts4 e5", "S\ts1\t10\t*", "S\ts2\t10\t*", "S\ts3\t10\t*", "S\ts4\t10\t*",
          "E\te1\ts1+\ts2+\t5\t10$\t0\t5\t*", "E\te2\ts1+\ts3-\t5\t10$\t5\t10$\t*",
          "E\te3\ts2+\ts3+\t2\t6\t3\t7\t*",
          "G\tg1\ts2+\ts3+\t5\t*", "F\ts1\tr1+\t0\t5\t0\t5\t*",
          "O\to1\ts1+ s2+", "U\tu1\ts1 e2", "U\tu2\tu1 o1"],
 # gap listed in a set, two gaps on one end, two fragments, nested ordered groups, containment E with the contained segment first
 # (the set arrives before the gap and the segment it lists)
 "gfa2b": ["U\tu1\tg1 s3", "S\ts1\t10\t*", "S\ts2\t10\t*", "S\ts3\t10\t*",
           "E\te1\ts1+\ts2+\t5\t10$\t0\t5\t*", "E\te2\ts1+\ts2+\t6\t10$\t0\t4\t*",
           "G\tg1\ts1+\ts2+\t5\t*", "G\tg2\ts1+\ts3-\t7\t*",
           "F\ts1\tr1+\t0\t5\t0\t5\t*", "F\ts1\tr2-\t0\t5\t0\t5\t*",
           "O\to1\ts1+ e1+ s2+", "O\to2\to1- s1-",
           "S\ts5\t4\t*", "E\te5\ts5+\ts1+\t0\t4$\t3\t7\t*"],          # a containment whose first segment is the contained one
}

NAMES = {
 "gfa1": ["s1", "s2", "s3", "s4", "p1", "p2", "l3", "zz"],
 "gfa1b": ["s1", "s2", "s3", "p1", "zz"],
 "gfa2": ["s1", "s2", "s3", "s4", "e1", "e2", "e3", "e5", "g1", "o1", "u1", "u2", "u5", "zz"],
 "gfa2b": ["s1", "s2", "s3", "e1", "e2", "g1", "g2", "o1", "o2", "u1", "e5", "zz"],
}

# lines that can be added: forward references, duplicates, complements, merges
POOL = {
 "gfa1": ["S\ts6\t*", "L\ts6\t+\ts1\t-\t*", "L\ts3\t+\ts1\t-\t3M",      # complement of a stored link
          "P\tp3\ts2+,s3+\t1M", "C\ts1\t-\ts6\t+\t2\t*", "S\ts1\t*", "P\tp1\ts2+,s3+\t*", "L\ts9\t+\ts1\t+\t*"],
 "gfa1b": ["S\ts4\t*", "L\ts1\t-\ts1\t-\t1M", "L\ts2\t+\ts2\t-\t2M", "L\ts2\t-\ts1\t-\t3M", "P\tp2\ts2+,s2-\t2M",
           "L\ts3\t+\ts3\t-\t*"],
 "gfa2": ["S\ts6\t10\t*", "E\te4\ts6+\ts1+\t5\t10$\t0\t5\t*", "U\tu1\ts3", "O\to2\to1- s9+",
          "E\te1\ts1+\ts2+\t0\t1\t0\t1\t*", "G\tg2\ts2+\ts3+\t1\t*", "F\ts9\tr2+\t0\t1\t0\t1\t*", "U\tu3\tg1 s1",
          "O\tu1\ts1+ s2+", "U\to1\ts2 s3", "G\ts6\ts1+\ts2+\t1\t*"],          # a path named like a set and vice versa: refused, not merged
 "gfa2b": ["S\ts4\t10\t*", "U\tu1\tg2", "U\tu2\tu1 g2", "O\to3\to2+", "G\tg1\ts1+\ts2+\t9\t*", "E\t*\ts3+\ts1-\t0\t2\t8\t10$\t*"],
}

# rename targets: fresh, in use by a segment, in use by another record type, placeholder, numeric
def rename_targets(base):
  other = {"gfa1": "p1", "gfa1b": "p1", "gfa2": "e1", "gfa2b": "g1"}[base]
  # ... an identifier that is only mentioned (placeholder of the pool's forward references), and the placeholder '*'
  return ["new", "s2", other, "7", "s9", "*"]


class Step:
  """outcome of one applied step"""
  __slots__ = ("op", "what", "raised", "legal", "desc")


def model_add(doc, text):
  """text-model effect of adding a line; -> False if the model says the line is
  refused (identifier in use)"""
  rt = record_type(text)
  ident = defined_id(text)
  if rt in ("L", "C", "P", "E", "G", "F"):
    # these records name *segments*: an identifier held by a line of another type cannot be one
    from spec.textmodel import mentions
    for m in mentions(text):
      hit = doc.find(m)
      if hit and record_type(hit[0]) != "S":
        return False
  if rt == "L":
    f = fields(text)
    for l in doc.lines:
      if record_type(l) != "L": continue
      lf = fields(l)
      comp = [lf[3], INV[lf[4]], lf[1], INV[lf[2]], cigar_complement_text(lf[5])]
      if f[1:6] == comp and f[1:6] != lf[1:6]:
        return True        # exact complement of a stored link: stored once, nothing raised (C12)
      for cand in (lf[1:6], comp):
        if f[1:5] == cand[0:4] and (f[5] == cand[4] or f[5] == "*" or cand[4] == "*"):
          return "either"  # equal / placeholder-compatible link: stored once or refused (both accepted)
  if ident is not None and rt != "S":
    # an identifier that other lines use as a *segment* (its placeholder exists) cannot become a line of another type
    from spec.textmodel import mentions as _m
    for l in doc.lines:
      if record_type(l) in ("L", "C", "P", "E", "G", "F") and ident in _m(l) and not doc.find(ident):
        return False
  if ident is not None and ident in doc.ids():
    prev = doc.find(ident)[0]
    if rt in ("O", "U") and record_type(prev) == rt:
      f, pf = fields(text), fields(prev)
      pf[2] = pf[2] + " " + f[2]
      for tag in f[3:]:
        if tag not in pf[3:]:
          pf.append(tag)
      doc.lines[doc.lines.index(prev)] = "\t".join(pf)
      return True
    return False
  doc.lines.append(text)
  return True


LAST = {"why": None}       # why the model calls the last step illegal: in_use | invalid | unknown | None

def apply_step(g, doc, base, op, a, b):
  LAST["why"] = None
  r = _apply_step(g, doc, base, op, a, b)
  return r

def _apply_step(g, doc, base, op, a, b):
  """apply step to the real Gfa (traced) and to the model; returns
  (raised_error_or_None, legal_in_model, description)."""
  names = NAMES[base]
  if op == 0:                      # rm by identifier
    name = vp.pick(names, a % len(names))
    desc = "rm(%r)" % name
    legal = name in doc.ids()
    try:
      g.rm(name)
    except gfapy.Error as e:
      return e, legal, desc
    if legal:
      doc.rm(name)
    return None, legal, desc
  if op == 1:                      # add a line from the pool
    pool = POOL[base]
    text = vp.pick(pool, a % len(pool))
    desc = "add_line(%r)" % text
    trial = doc.copy()
    legal = model_add(trial, text)
    if legal is False: LAST["why"] = "in_use"
    try:
      g.add_line(text)
    except gfapy.Error as e:
      return e, (False if legal == "either" else legal), desc
    if legal is True:
      doc.lines = trial.lines
    return None, bool(legal), desc
  if op == 2:                      # rename
    name = vp.pick(names, a % len(names))
    tg = rename_targets(base)
    new = vp.pick(tg, b % len(tg))
    desc = "rename(%r -> %r)" % (name, new)
    legal = name in doc.ids() and (new == name or new not in doc.ids())
    if name not in doc.ids(): LAST["why"] = "unknown"
    elif not legal: LAST["why"] = "in_use"
    line = g.line(name)
    if line is None:
      LAST["why"] = "unknown"
      return gfapy.NotFoundError(name), False, desc
    # renaming onto an identifier that is mentioned but not defined (a placeholder exists), or to '*':
    # refusing and performing the rename are both acceptable; if it is performed the model follows
    either = legal and (new == "*" or new in doc.undefined_mentions())
    if new == "*" and record_type(doc.find(name)[0]) in ("S", "P"):
      either, legal = True, True          # '*' is not an identifier of S/P lines: refusal expected, acceptance tolerated
      LAST["why"] = "invalid"
    try:
      line.name = new
    except gfapy.Error as e:
      return e, (False if either else legal), desc
    if legal:
      if new == "*":
        t = doc.find(name)[0]
        if record_type(t) in ("S", "P"):
          return None, None, desc         # a segment/path literally named '*' (grammatical in GFA2): outside the claim
        if name in [m for l in doc.lines for m in __import__("spec.textmodel", fromlist=["mentions"]).mentions(l)]:
          return None, None, desc         # anonymising a line that others mention: no text denotes this (outside the claim)
        f = fields(t); f[1] = "*"
        doc.lines[doc.lines.index(t)] = "\t".join(f)
      else:
        doc.rename(name, new)
    return None, legal, desc
  if op == 3:                      # disconnect an anonymous/any line by instance
    with NoTracing():
      cands = [l for l in g.lines if l.record_type in ("L", "C", "F", "E", "G") and not l.virtual]
    if not cands:
      return gfapy.NotFoundError("none"), False, "disconnect(none)"
    i = vp.concretize(a % len(cands), 0, len(cands) - 1)
    line = cands[i]
    with NoTracing():
      text = line_text(line)
    desc = "disconnect(%r)" % text
    try:
      line.disconnect()
    except gfapy.Error as e:
      return e, True, desc
    with NoTracing():
      hit = [l for l in doc.lines if canon_text(l) == canon_text(text)]
      if hit:
        doc.rm_line(hit[0])
    return None, bool(hit), desc
  if op == 4:                      # set / delete a tag
    name = vp.pick(names, a % len(names))
    line = g.line(name)
    desc = "tag(%r, %d)" % (name, b % 4)
    if line is None or name not in doc.ids():
      return gfapy.NotFoundError(name), False, desc
    k = b % 4
    with NoTracing():
      if k == 0 and any(x.startswith("xx:") and not x.startswith("xx:i:") for x in fields(doc.find(name)[0])):
        # assigning an integer to an existing tag of another datatype is not a valid assignment (C18): outside this domain
        return None, None, desc
    try:
      if k == 0: line.set("xx", 5)
      elif k == 1: line.set("yy", "a b")
      elif k == 3:
        line.delete("xx"); line.set("xx", "q")       # replace the tag by one of another datatype
      else: line.delete("xx")
    except gfapy.Error as e:
      return e, True, desc
    with NoTracing():
      t = doc.find(name)[0]
      f = [x for x in fields(t)]
      if k == 0:
        f = [x for x in f if not x.startswith("xx:")] + ["xx:i:5"] if not any(x.startswith("xx:") for x in f) else \
            [("xx:i:5" if x.startswith("xx:") else x) for x in f]
      elif k == 1:
        f = f + ["yy:Z:a b"] if not any(x.startswith("yy:") for x in f) else \
            [("yy:Z:a b" if x.startswith("yy:") else x) for x in f]
      elif k == 3:
        f = [x for x in f if not x.startswith("xx:")] + ["xx:Z:q"]
      else:
        f = [x for x in f if not x.startswith("xx:")]
      doc.lines[doc.lines.index(t)] = "\t".join(f)
    return None, True, desc
  raise ValueError(op)


def fresh(base):
  lines = BASES[base]
  return gfapy.Gfa(list(lines)), Doc(list(lines))


def model_matches(g, doc):
  """C05 oracle: the Gfa equals a Gfa parsed afresh from the model text
  (only called when every identifier the model mentions is defined)."""
  try:
    ref = gfapy.Gfa(list(doc.lines), version=g.version)
  except gfapy.Error as e:
    return ["model text does not parse: %s" % type(e).__name__]
  return diff_obs(observe(g), observe(ref))


# ---------------------------------------------------------------------------
# step tables and the generic driver
# ---------------------------------------------------------------------------
def step_table(base, ops):
  """list of concrete (op, a, b) steps over the alphabet of `base`"""
  nn, npool, nt = len(NAMES[base]), len(POOL[base]), 4
  out = []
  for op in ops:
    if op == 0: out += [(0, a, 0) for a in range(nn)]
    elif op == 1: out += [(1, a, 0) for a in range(npool)]
    elif op == 2: out += [(2, a, b) for a in range(nn - 1) for b in range(6)]
    elif op == 3: out += [(3, a, 0) for a in range(8)]
    elif op == 4: out += [(4, a, b) for a in (0, 3) for b in range(4)]
    elif op == 5: out += [(2, a, b) for a in range(nn - 1) for b in (0, 4, 5)]   # rename to a fresh name / onto a placeholder's id / to the placeholder '*'
  return out


def drop_orphans(obs):
  """(only while the listed finding 'orphan placeholder' is active) ignore
  placeholder lines that no line refers to any more"""
  return obs


def orphan_placeholders(g):
  return [l for l in g.lines if l.virtual and not any(l._refs.values())]


def run(base, table, codes, oracle, tag):
  with NoTracing():
    g, doc = fresh(base)
  for c in codes:
    op, a, b = vp.pick(table, c)
    before = None
    if oracle == "C08":
      with NoTracing():
        before = full_observation(g)
    err, legal, desc = apply_step(g, doc, base, op, a, b)
    vp.reached(tag, base, desc, type(err).__name__ if err else None)
    if legal is None:
      return True                           # the step left the claimed domain (see apply_step)
    with NoTracing():
      if oracle == "C02":
        if invariant(g): return False
      elif oracle == "C05":
        if err is None and not legal:
          return True                       # the model calls the step illegal: C09's business
        if err is None and not doc.undefined_mentions():
          if vp.kf_active("KF-C05-orphan-placeholder") and orphan_placeholders(g):
            return True
          if model_matches(g, doc): return False
      elif oracle == "C16":
        if err is None:
          if nbhd.topology_check(g): return False
          if nbhd.check(g): return False
      elif oracle == "C08":
        if err is not None:
          if diff_obs(full_observation(g), before): return False
      elif oracle == "C09":
        if not c09_oracle(g, doc, base, err, legal, op): return False
      if err is None and not legal and oracle != "C09":
        return True
  return True


def full_observation(g):
  obs = observe(g)
  obs["queue"] = [str(x) for x in g._line_queue]
  obs["header"] = sorted(str(h) for h in g.headers)
  obs["text"] = sorted(canon_text(line_text(l)) for l in g.lines)
  return obs


def c09_oracle(g, doc, base, err, legal, op):
  # identifiers pairwise distinct
  names = [str(n) for n in g.names]
  if len(names) != len(set(names)): return False
  # lookup returns exactly the line carrying the identifier, nothing otherwise
  pool = (set(NAMES[base]) | set(rename_targets(base)) | set(names) | {"s4", "s6", "s9", "nope"}) - {"*"}
  if g.line("*") is not None: return False          # the placeholder is nobody's identifier
  for n in pool:
    l = g.line(n)
    carriers = [x for x in g.lines if x.record_type not in ("H", "#", "F") and
                not gfapy.is_placeholder(x.get("name") if x.record_type not in ("L", "C") else x.name) and
                str(x.name) == n]
    if l is None:
      if carriers and not (vp.kf_active("KF-C09-link-id-lookup") and all(x.record_type in ("L", "C") for x in carriers)):
        return False
      try:
        g.try_get_line(n); return False
      except gfapy.NotFoundError:
        pass
    else:
      if len(carriers) != 1 or carriers[0] is not l: return False
      if g.try_get_line(n) is not l: return False
    s = g.segment(n)
    if (s is not None) != any(x.record_type == "S" for x in carriers): return False
  # an identifier in use refuses additions/renames (except the documented merges)
  if op in (1, 2) and err is None and not legal: return False
  if op in (1, 2) and err is not None and legal and not isinstance(err, gfapy.NotFoundError): return False
  if op in (1, 2) and err is not None and not legal:
    # an identifier in use is refused with NotUniqueError; an unknown line with NotFoundError; an invalid
    # identifier with a format/value error
    want = {"in_use": gfapy.NotUniqueError, "unknown": gfapy.NotFoundError}.get(LAST["why"], gfapy.Error)
    if not isinstance(err, want): return False
  # a successful rename / add leaves exactly the text the model predicts
  if err is None and legal and not doc.undefined_mentions():
    if vp.kf_active("KF-C05-orphan-placeholder") and orphan_placeholders(g):
      return True
    if sorted(canon_text(line_text(l)) for l in g.lines) != doc.canon(): return False
  return True
