"""C03: the graph does not depend on the order of the lines."""
from vlib import vp
from vlib.vp import gfapy, NoTracing
from spec.observe import observe, diff_obs, invariant
from spec import nbhd

NPART = vp.NPART
PART = vp.PART

_FUNCS = ["Gfa.__init__", "Creators.add_line/__add_line_unknown_version/__add_line_GFA1/__add_line_GFA2/process_line_queue",
          "Connection.connect", "VirtualToReal._substitute_virtual_line/_import_references",
          "UpdateReferences._update_references/__update_reference_in_list", "*/references._initialize_references",
          "group/gfa2/references._line_for_ref_symbol", "SameID._process_not_unique", "Gfa.validate"]

META = {
 "property": "C03",
 "harnesses": {
  "h_gfa1_lcp": {"kind": "G", "functions": _FUNCS,
    "bounds": "GFA1 document S,S,L,C,P (5 lines): all 120 arrival orders x 4 link orientation pairs x path written along the link or along its complement x link overlap '*' or an asymmetric CIGAR (path overlaps unspecified)",
    "timeout": {"quick": 240, "thorough": 600}, "parts": {"quick": 12, "thorough": 12}},
  "h_gfa1_two_paths": {"kind": "G", "functions": _FUNCS,
    "bounds": "GFA1 document S,S,L,P,P (5 lines), the two paths walking the one link in opposite directions (so that they share its placeholder with opposite orientations when they arrive first): all 120 arrival orders x 4 link orientation pairs x link written as the first path asks or as its complement x overlaps '*' or explicit CIGARs",
    "timeout": {"quick": 240, "thorough": 600}, "parts": {"quick": 12, "thorough": 12}},
  "h_gfa1_circular": {"kind": "G", "functions": _FUNCS, "tiers": ["thorough"],
    "bounds": "GFA1 document S,S,L,L,C,P(circular path over the two links) (6 lines): all 720 arrival orders x orientation bit",
    "timeout": {"quick": 240, "thorough": 900}, "parts": {"quick": 16, "thorough": 16}},
  "h_gfa2_groups": {"kind": "G", "functions": _FUNCS,
    "bounds": "GFA2 document S,S,E,O,U (5 lines) quick / S,S,E,G,O,U (6 lines) thorough: all arrival orders x 2 orientations x E interval kind (dovetail/containment/internal), plus the document S,S,G,O,U whose groups list the gap",
    "timeout": {"quick": 240, "thorough": 900}, "parts": {"quick": 12, "thorough": 16}},
  "h_gfa2_nested": {"kind": "G", "functions": _FUNCS,
    "bounds": "GFA2 document S,S,E,O(o1),O(o2 -> o1-),U(u1 -> o2,u2),U(u2 -> s1) restricted to 5 (quick: S,E,O,O,U) / 6 lines (thorough: S,S,E,O,O,U): all arrival orders",
    "timeout": {"quick": 240, "thorough": 900}, "parts": {"quick": 12, "thorough": 16}},
 },
}

INV = {"+": "-", "-": "+"}
_REFCACHE = {}

def _reference(doc):
  """observation of the identity order (computed natively, cached per concrete document)"""
  key = tuple(doc)
  if key not in _REFCACHE:
    g = gfapy.Gfa(list(doc))
    _REFCACHE[key] = observe(g)
  return _REFCACHE[key]

def _perm_check(doc, code, tag):
  n = len(doc)
  p = vp.perm_from(code, n)
  lines = [doc[i] for i in p]
  g = gfapy.Gfa(lines)
  vp.reached(tag, p)
  with NoTracing():
    ref = _reference(doc)
    obs = observe(g)
    if diff_obs(obs, ref): return False
    if obs["virtual"]: return False          # every identifier is defined by the document
    if invariant(g): return False
    if nbhd.check(g): return False
  return True

def h_gfa1_lcp(code: int, p1: bool, p2: bool, along: bool, cig: bool) -> bool:
  """
  pre: 0 <= code < 120
  pre: code % NPART == PART
  post: _ == True
  """
  vp.enter("lcp")
  o1 = "+" if p1 else "-"
  o2 = "+" if p2 else "-"
  path = ("s1" + o1 + ",s2" + o2) if along else ("s2" + INV[o2] + ",s1" + INV[o1])
  # (cig: the link carries an asymmetric CIGAR while the path leaves its overlaps unspecified)
  doc = ["S\ts1\t*", "S\ts2\t*", "L\ts1\t" + o1 + "\ts2\t" + o2 + "\t" + ("1M1D2M" if cig else "*"),
         "C\ts1\t+\ts2\t" + o2 + "\t0\t*", "P\tp1\t" + path + "\t*"]
  return _perm_check(doc, code, "lcp")

def h_gfa1_two_paths(code: int, p1: bool, p2: bool, along: bool, cig: bool) -> bool:
  """
  pre: 0 <= code < 120
  pre: code % NPART == PART
  post: _ == True
  """
  vp.enter("two")
  o1 = "+" if p1 else "-"
  o2 = "+" if p2 else "-"
  fwd, bwd = "s1" + o1 + ",s2" + o2, "s2" + INV[o2] + ",s1" + INV[o1]
  link = ("L\ts1\t" + o1 + "\ts2\t" + o2 + "\t" + ("1D3M" if cig else "*")) if along else \
         ("L\ts2\t" + INV[o2] + "\ts1\t" + INV[o1] + "\t" + ("3M1I" if cig else "*"))
  doc = ["S\ts1\t*", "S\ts2\t*", link, "P\tp1\t" + fwd + "\t" + ("1D3M" if cig else "*"),
         "P\tq1\t" + bwd + "\t" + ("3M1I" if cig else "*")]
  return _perm_check(doc, code, "two")

def h_gfa1_circular(code: int, p1: bool) -> bool:
  """
  pre: 0 <= code < 720
  pre: code % NPART == PART
  post: _ == True
  """
  vp.enter("circ")
  o = "+" if p1 else "-"
  doc = ["S\ta\t*", "S\tb\t*", "L\ta\t+\tb\t" + o + "\t1M", "L\tb\t" + o + "\ta\t+\t2M",
         "C\ta\t+\tb\t+\t0\t*", "P\tp\ta+,b" + o + "\t1M,2M"]
  return _perm_check(doc, code, "circ")

NQ = vp.T(120, 720)
EKIND = [("5", "10$", "0", "5"),     # dovetail
         ("0", "10$", "2", "8"),     # containment
         ("2", "6", "3", "7")]       # internal

def h_gfa2_groups(code: int, p1: bool, k: int) -> bool:
  """
  pre: 0 <= code < NQ
  pre: code % NPART == PART
  pre: 0 <= k < 4
  post: _ == True
  """
  vp.enter("g2")
  o = "+" if p1 else "-"
  kk = vp.concretize(k, 0, 3)
  if kk == 3:
    # a gap listed by an ordered and an unordered group (gfapy accepts gaps as group items)
    doc = ["S\ts1\t10\t*", "S\ts2\t10\t*", "G\tg1\ts1+\ts2" + o + "\t5\t*", "O\to1\ts1+ g1+ s2" + o, "U\tu1\tg1 o1"]
    if not vp.QUICK:
      doc = doc[:3] + ["F\ts2\tr1" + o + "\t0\t5\t0\t5\t*"] + doc[3:]
    return _perm_check(doc, code, "g2")
  b1, e1, b2, e2 = EKIND[kk]
  doc = ["S\ts1\t10\t*", "S\ts2\t10\t*", "E\te1\ts1+\ts2" + o + "\t" + b1 + "\t" + e1 + "\t" + b2 + "\t" + e2 + "\t*",
         "O\to1\ts1+ s2" + o, "U\tu1\ts1 e1 o1"]
  if not vp.QUICK:
    doc = doc[:3] + ["G\tg1\ts1-\ts2" + o + "\t5\t*"] + doc[3:]
    doc[-1] = "U\tu1\ts1 e1 o1 g1"
  if kk != 0:
    doc = [d if not d.startswith("O\t") else "O\to1\ts1+ e1+" for d in doc]
  return _perm_check(doc, code, "g2")

def h_gfa2_nested(code: int, p1: bool) -> bool:
  """
  pre: 0 <= code < NQ
  pre: code % NPART == PART
  post: _ == True
  """
  vp.enter("nest")
  o = "+" if p1 else "-"
  if vp.QUICK:
    doc = ["S\ts1\t10\t*", "E\te1\ts1+\ts2" + o + "\t5\t10$\t0\t5\t*", "O\to1\ts1+ s2" + o,
           "O\to2\to1-", "U\tu1\to2 u2 s2"]
    # s2 and u2 are never defined: they must stay placeholders in every order
    n = len(doc)
    p = vp.perm_from(code, n)
    g = gfapy.Gfa([doc[i] for i in p], vlevel=0)
    vp.reached("nest", p)
    with NoTracing():
      ref_g = gfapy.Gfa(list(doc), vlevel=0)
      obs, ref = observe(g), observe(ref_g)
      if diff_obs(obs, ref): return False
      # placeholders only for the two undefined identifiers
      if len(obs["virtual"]) != 2: return False
      if invariant(g): return False
    return True
  doc = ["S\ts1\t10\t*", "S\ts2\t10\t*", "E\te1\ts1+\ts2" + o + "\t5\t10$\t0\t5\t*", "O\to1\ts1+ s2" + o,
         "O\to2\to1-", "U\tu1\to2 s1 e1"]
  return _perm_check(doc, code, "nest")
