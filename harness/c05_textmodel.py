"""C05: mutating a Gfa is equivalent to editing its text (exact removal cascade)."""
from vlib import vp
from vlib.vp import gfapy, NoTracing
from harness import histlib as H

NPART = vp.NPART
PART = vp.PART
_FUNCS = ["Gfa.rm", "Gfa.add_line", "Line.disconnect", "Disconnection.*", "UpdateReferences._update_references",
          "FieldData._set_existing_field (rename)", "FieldData.set/delete (tags)", "SameID._process_not_unique",
          "link References._process_not_unique", "Destructors._unregister_line", "Gfa.__str__ / Line.__str__"]
_B = "base states gfa1, gfa1b, gfa2, gfa2b (see histlib.BASES; ordered groups list segments, edges and groups only, a gap is never the only item of a set, no group contains itself); "

META = {
 "property": "C05",
 "harnesses": {
  "h_hist2": {"kind": "G", "functions": _FUNCS,
    "bounds": _B + "every history of 2 steps over {rm(any identifier), add_line(any pool line), rename to a fresh name, set/overwrite/delete a tag}; after each step whose model text is reference-complete: full observation (lines, names, references, back-references) equals that of a Gfa parsed afresh from the edited text",
    "timeout": {"quick": 400, "thorough": 900}, "parts": {"quick": 16, "thorough": 16}},
  "h_hist2_full": {"kind": "G", "functions": _FUNCS, "tiers": ["thorough"],
    "bounds": _B + "every history of 2 steps over the full alphabet incl. disconnect(instance) and rename onto every kind of target",
    "timeout": {"thorough": 900}, "parts": {"thorough": 16}},
 },
}

BASEKEYS = ["gfa1", "gfa1b", "gfa2", "gfa2b"]
TAB2 = {b: H.step_table(b, [0, 1, 5, 4]) for b in BASEKEYS}
TABF = {b: H.step_table(b, [0, 1, 2, 3, 4]) for b in BASEKEYS}
N2 = max(len(t) for t in TAB2.values())
NF = max(len(t) for t in TABF.values())

def h_hist2(bi: int, c1: int, c2: int) -> bool:
  """
  pre: 0 <= bi < 4 and 0 <= c1 < N2 and 0 <= c2 < N2
  pre: (c1 + c2 + bi) % NPART == PART
  post: _ == True
  """
  vp.enter("h2")
  base = vp.pick(BASEKEYS, bi)
  tab = TAB2[base]
  if c1 >= len(tab) or c2 >= len(tab): return True
  return H.run(base, tab, [c1, c2], "C05", "h2")

def h_hist2_full(bi: int, c1: int, c2: int) -> bool:
  """
  pre: 0 <= bi < 4 and 0 <= c1 < NF and 0 <= c2 < NF
  pre: (c1 + c2 + bi) % NPART == PART
  post: _ == True
  """
  vp.enter("h2f")
  base = vp.pick(BASEKEYS, bi)
  tab = TABF[base]
  if c1 >= len(tab) or c2 >= len(tab): return True
  return H.run(base, tab, [c1, c2], "C05", "h2f")
