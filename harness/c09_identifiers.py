"""C09: identifiers are unique; lookup and renaming stay coherent."""
from vlib import vp
from vlib.vp import gfapy, NoTracing
from harness import histlib as H

NPART = vp.NPART
PART = vp.PART
THOROUGH = not vp.QUICK
_FUNCS = ["Finders.line/try_get_line/segment/_search_duplicate/__line_by_name", "Connection.connect/_process_not_unique",
          "FieldData._set_existing_field (rename: unregister/re-register)", "Creators._register_line", "Destructors._unregister_line",
          "Collections.names/segment_names/edge_names/path_names/set_names/gap_names/unused_name", "SameID._process_not_unique",
          "link References._process_not_unique"]

META = {
 "property": "C09",
 "harnesses": {
  "h_hist": {"kind": "G", "functions": _FUNCS,
    "bounds": "base states gfa1, gfa2 (quick) + gfa1b, gfa2b (thorough) x every history of 2 steps over {add_line(pool: fresh ids, ids in use by the same / another record type, group merges, equal and complement links), rename(any identified line -> fresh name | name of a segment | name of another record type | integer-looking name)}; after every step: names pairwise distinct, line()/try_get_line()/segment() coherent for every pool name, refusals are NotUniqueError, text after a successful step equals the text model",
    "timeout": {"quick": 400, "thorough": 900}, "parts": {"quick": 16, "thorough": 16}},
  "h_rename_levels": {"kind": "L/G", "functions": ["FieldData._set_existing_field (rename)", "Creators._register_line/_unregister_line", "Finders.line/names"],
    "bounds": "the 4 base states read at vlevel 0..3; every identified line renamed to each of the 6 rename targets (fresh, in use by the same / another record type, numeric, placeholder id, '*'): same outcome class at every level as the oracle of h_hist (refused with NotUniqueError and nothing changed, or renamed everywhere)",
    "timeout": {"quick": 300, "thorough": 600}, "parts": {"quick": 8, "thorough": 8}},
  "h_unused_name": {"kind": "K/G", "functions": ["Collections.unused_name", "Creators._register_line (max int name)", "Gfa.add_line"],
    "bounds": "segments named str(n) for symbolic n in 0..30 (quick) / 0..99 (thorough) and str(m), m in {n+1, n+2, 7}, optionally a segment renamed to str(m+1); k in 1..2 successive unused_name() calls, each followed by adding a segment under that name",
    "timeout": {"quick": 200, "thorough": 600}, "parts": {"quick": 4, "thorough": 4}},
 },
}

BASEKEYS = ["gfa1", "gfa2", "gfa1b", "gfa2b"]
NB = vp.T(2, 4)
NMAX = vp.T(30, 99)
TAB = {b: H.step_table(b, [1, 2]) for b in BASEKEYS}
NT = max(len(TAB[b]) for b in BASEKEYS[:NB])

def h_hist(bi: int, c1: int, c2: int) -> bool:
  """
  pre: 0 <= bi < NB and 0 <= c1 < NT and 0 <= c2 < NT
  pre: (c1 + c2 + bi) % NPART == PART
  post: _ == True
  """
  vp.enter("h")
  base = vp.pick(BASEKEYS, bi)
  tab = TAB[base]
  if c1 >= len(tab) or c2 >= len(tab): return True
  return H.run(base, tab, [c1, c2], "C09", "h")

def h_unused_name(n: int, j: int, k: int, ren: bool) -> bool:
  """
  pre: 0 <= n <= NMAX and 0 <= j <= 2 and 1 <= k <= 2
  pre: n % NPART == PART
  post: _ == True
  """
  vp.enter("u")
  with NoTracing():
    g = gfapy.Gfa(["S\tx\t*", "S\ty\t*", "L\tx\t+\ty\t+\t*"])
  g.add_line("S\t" + str(n) + "\t*")
  m = [n + 1, n + 2, 7][vp.concretize(j, 0, 2)]
  if m != n:
    g.add_line("S\t" + str(m) + "\t*")
  if ren:
    # an integer-looking name may also come from a rename
    g.segment("x").name = str(max(n, m) + 1)
  kk = vp.concretize(k, 1, 2)
  vp.reached("u", kk, ren)
  for _ in range(kk):
    name = g.unused_name()
    if g.line(name) is not None: return False
    if name in g.names: return False
    g.add_line("S\t" + name + "\t*")
    if g.segment(name) is None: return False
  names = g.names
  return len(names) == len(set(names))


def h_rename_levels(bi: int, ni: int, ti: int, vl: int) -> bool:
  """
  pre: 0 <= bi < 4 and 0 <= ni < 16 and 0 <= ti < 6 and 0 <= vl <= 3
  pre: (ni + ti) % NPART == PART
  post: _ == True
  """
  vp.enter("rl")
  base = vp.pick(BASEKEYS, bi)
  names = H.NAMES[base]
  if ni >= len(names) - 1: return True
  name = names[vp.concretize(ni, 0, len(names) - 2)]
  target = H.rename_targets(base)[vp.concretize(ti, 0, 5)]
  level = vp.concretize(vl, 0, 3)
  with NoTracing():
    g = gfapy.Gfa(list(H.BASES[base]), vlevel=level)
    line = g.line(name)
    if line is None: return True              # (an identifier carried by an L/C line: see the listed finding)
    names_before = sorted(str(x) for x in g.names)
    taken = target in names_before and target != name
  vp.reached("rl", base, name, target, level)
  try:
    line.name = target
  except gfapy.NotUniqueError:
    with NoTracing():
      return taken and sorted(str(x) for x in g.names) == names_before and g.line(name) is line
  except gfapy.Error:
    with NoTracing():
      # any other refusal (e.g. an identifier which only exists as a placeholder) leaves the names alone
      return sorted(str(x) for x in g.names) == names_before and g.line(name) is line
  with NoTracing():
    if taken: return False                    # renamed onto an identifier in use
    after = sorted(str(x) for x in g.names)
    if target != "*":
      if g.line(target) is not line: return False
      if name != target and g.line(name) is not None and not g.line(name).virtual: return False
      return after == sorted([x for x in names_before if x != name] + [target])
    return len(after) == len(set(after)) and name not in after
