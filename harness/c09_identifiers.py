"""C09: identifiers are unique; lookup and renaming stay coherent."""
from vlib import vp
from vlib.vp import gfapy, NoTracing
from harness import histlib as H

NPART = vp.NPART
PART = vp.PART
THOROUGH = not vp.QUICK
_FUNCS = ["Finders.line/try_get_line/segment/_search_duplicate/__line_by_name", "Connection.connect/_process_not_unique",
          "FieldData._set_existing_field (rename: unregister/re-register)", "Creators._register_line", "Destructors._unregister_line",
          "Collections.names/segment_names/edge_names/path_names/set_names/gap_names/unused_name", "SameID._process_not_unique",
          "link References._process_not_unique"]

META = {
 "property": "C09",
 "harnesses": {
  "h_hist": {"kind": "G", "functions": _FUNCS,
    "bounds": "base states gfa1, gfa2 (quick) + gfa1b, gfa2b (thorough) x every history of 2 steps over {add_line(pool: fresh ids, ids in use by the same / another record type, group merges, equal and complement links), rename(any identified line -> fresh name | name of a segment | name of another record type | integer-looking name)}; after every step: names pairwise distinct, line()/try_get_line()/segment() coherent for every pool name, refusals are NotUniqueError, text after a successful step equals the text model",
    "timeout": {"quick": 400, "thorough": 1500}, "parts": {"quick": 16, "thorough": 16}},
  "h_unused_name": {"kind": "K/G", "functions": ["Collections.unused_name", "Creators._register_line (max int name)", "Gfa.add_line"],
    "bounds": "segments named str(n) for symbolic n in 0..30 (quick) / 0..99 (thorough) and str(m), m in {n+1, n+2, 7}; k in 1..2 successive unused_name() calls, each followed by adding a segment under that name",
    "timeout": {"quick": 200, "thorough": 600}, "parts": {"quick": 4, "thorough": 4}},
 },
}

BASEKEYS = ["gfa1", "gfa2", "gfa1b", "gfa2b"]
NB = vp.T(2, 4)
NMAX = vp.T(30, 99)
TAB = {b: H.step_table(b, [1, 2]) for b in BASEKEYS}
NT = max(len(TAB[b]) for b in BASEKEYS[:NB])

def h_hist(bi: int, c1: int, c2: int) -> bool:
  """
  pre: 0 <= bi < NB and 0 <= c1 < NT and 0 <= c2 < NT
  pre: (c1 * NB + bi) % NPART == PART
  post: _ == True
  """
  vp.enter("h")
  base = vp.pick(BASEKEYS, bi)
  tab = TAB[base]
  if c1 >= len(tab) or c2 >= len(tab): return True
  return H.run(base, tab, [c1, c2], "C09", "h")

def h_unused_name(n: int, j: int, k: int) -> bool:
  """
  pre: 0 <= n <= NMAX and 0 <= j <= 2 and 1 <= k <= 2
  pre: n % NPART == PART
  post: _ == True
  """
  vp.enter("u")
  with NoTracing():
    g = gfapy.Gfa(["S\tx\t*", "S\ty\t*", "L\tx\t+\ty\t+\t*"])
  g.add_line("S\t" + str(n) + "\t*")
  m = [n + 1, n + 2, 7][vp.concretize(j, 0, 2)]
  if m != n:
    g.add_line("S\t" + str(m) + "\t*")
  kk = vp.concretize(k, 1, 2)
  vp.reached("u", kk)
  for _ in range(kk):
    name = g.unused_name()
    if g.line(name) is not None: return False
    if name in g.names: return False
    g.add_line("S\t" + name + "\t*")
    if g.segment(name) is None: return False
  names = g.names
  return len(names) == len(set(names))
