"""C18: validation levels only change when errors surface, never the result."""
from vlib import vp
from vlib.vp import gfapy, NoTracing
from spec.observe import observe, diff_obs
from spec import gfa_grammar as G
from harness.c10_purity import ST1, ST2

NPART = vp.NPART
PART = vp.PART

META = {
 "property": "C18",
 "harnesses": {
  "h_same_graph": {"kind": "G",
    "functions": ["Gfa.__init__", "Construction._init_field_value (eager/lazy parsing)", "FieldData.get (lazy decode)", "Writer.field_to_s", "Multiline.add/_merge", "Gfa.validate"],
    "bounds": "6 valid documents (3 GFA1, 3 GFA2: every record type, all tag datatypes, repeated header tags; 3 documents whose first line reveals the version) + 1..3 extra H lines repeating a custom tag (header multi-definition) x every pair of validation levels (k1,k2) in 0..3: same full observation and same written text; string and list entry points",
    "timeout": {"quick": 300, "thorough": 900}, "parts": {"quick": 16, "thorough": 16}},
  "h_monotone_field": {"kind": "L",
    "functions": ["Line.__init__", "Construction._init_field_value", "Field._parse_gfa_field", "<datatype>.decode / unsafe_decode", "Line.__str__"],
    "bounds": "12 (record, focus field) templates x every string of length <= 2 (thorough: <= 3 for every third template) over a 14-character alphabet (letters, signs, digits, '$', ',', ':', space, DEL, a non-ASCII letter; indices chosen by the solver) in the focus field x level k in 1..3: accepted at k => accepted at k-1 (down to 0), and whenever two levels accept they write the same text",
    "timeout": {"quick": 400, "thorough": 900}, "parts": {"quick": 16, "thorough": 16}},
  "h_assignment": {"kind": "L",
    "functions": ["FieldData.set/_set_existing_field", "DynamicFields.__setattr__", "Writer.field_to_s", "Validate.validate_field/validate", "Field._validate_gfa_field"],
    "bounds": "12 (line, field) targets (incl. the optional fields var of G and eid of E holding '*') (positional, predefined tag, custom tag of datatypes i, Z, A, f, sequence, position, orientation) x value in {0, 1, -1, 5, 10^12, a mixed list, every string of length <= 1 (quick) / 2 (thorough) over the 14-character alphabet} x level 0..3: invalid values are reported at the assignment at level 3, no later than field_to_s at level 2, by validate_field at every level; valid values are never rejected",
    "timeout": {"quick": 400, "thorough": 900}, "parts": {"quick": 16, "thorough": 16}},
 },
}

def _no_json(doc):
  # cut: under CrossHair json.loads returns proxy containers that gfapy's isinstance(obj, dict) checks refuse;
  # J tags are exercised by C20 (h_values) and C01 instead
  return ["\t".join(f for f in l.split("\t") if not (len(f) > 4 and f[2:5] == ":J:")) for l in doc]
DOCS = [_no_json(d) for (d, vl) in ST1 + ST2]
# documents whose first line is the one that reveals the version (no header)
DOCS += [["E\te\ta+\tb-\t0\t1\t0\t1\t*", "G\tg\ta+\tb-\t5\t*", "S\ta\t5\t*", "S\tb\t5\t*"],
         ["F\ta\tr+\t0\t1\t0\t1\t*", "U\tu\ta b", "S\ta\t5\t*", "S\tb\t5\t*"],
         ["L\ta\t+\tb\t-\t*", "P\tp\ta+,b-\t*", "S\ta\t*", "S\tb\t*"]]
ND = len(DOCS)

def h_same_graph(di: int, k1: int, k2: int, extra: int, entry: bool) -> bool:
  """
  pre: 0 <= di < ND and 0 <= k1 <= 3 and 0 <= k2 <= 3 and k1 < k2 and 0 <= extra <= 3
  pre: (di + 4 * k1 + k2) % NPART == PART
  post: _ == True
  """
  vp.enter("sg")
  doc = list(DOCS[vp.concretize(di, 0, ND - 1)])
  doc += ["H\tcu:i:%d" % (i + 1) for i in range(vp.concretize(extra, 0, 3))]
  a, b = vp.concretize(k1, 0, 3), vp.concretize(k2, 0, 3)
  src = doc if entry else "\n".join(doc)
  ga = gfapy.Gfa(src, vlevel=a)
  gb = gfapy.Gfa(src, vlevel=b)
  ta, tb = str(ga), str(gb)
  vp.reached("sg", di, a, b, extra)
  if ta != tb: return False
  # the level of the Gfa is the level of every one of its lines, whatever their arrival order
  if any(l.vlevel != a for l in ga.lines) or any(l.vlevel != b for l in gb.lines): return False
  with NoTracing():
    if diff_obs(observe(ga), observe(gb)): return False
  return "INVALID" not in ta

# (template with {} for the focus field, version, datatype of the focus field)
TEMPL = [
  ("S\t{}\t*", "gfa1", "segment_name_gfa1"), ("S\ta\t{}", "gfa1", "sequence_gfa1"), ("S\ta\t*\tLN:i:{}", "gfa1", "i"),
  ("L\ta\t{}\tb\t-\t*", "gfa1", "orientation"), ("L\ta\t+\tb\t-\t{}", "gfa1", "alignment_gfa1"), ("C\ta\t+\tb\t-\t{}\t*", "gfa1", "position_gfa1"),
  ("P\tp\t{}\t*", "gfa1", "oriented_identifier_list_gfa1"), ("S\ta\t{}\t*", "gfa2", "i"), ("E\te\ta+\tb-\t0\t{}\t0\t1\t*", "gfa2", "position_gfa2"),
  ("E\te\ta+\tb-\t0\t1\t0\t1\t{}", "gfa2", "alignment_gfa2"), ("G\tg\ta+\t{}\t5\t*", "gfa2", "oriented_identifier_gfa2"),
  ("S\ta\t*\txx:Z:{}", "gfa1", "Z"),
]
NT = len(TEMPL)

def _try(text, version, level):
  try:
    l = gfapy.Line(text, version=version, vlevel=level)
    w = str(l)
    return True, w
  except gfapy.Error:
    return False, None

ALPHA = ["a", "+", "-", "*", "1", "0", "$", ",", "M", " ", ":", "A", "\x7f", "\u00e9"]
NA = len(ALPHA)

def _mkstr(n, c0, c1, c2):
  """string of length n from solver-chosen alphabet indices (plain str, see C04 h_decode_alphabet)"""
  k = vp.concretize(n, 0, 3)
  idx = [vp.concretize(c, 0, NA - 1) for c in (c0, c1, c2)][:k]
  with NoTracing():
    return "".join(ALPHA[i] for i in idx)

def h_monotone_field(ti: int, n: int, c0: int, c1: int, c2: int) -> bool:
  """
  pre: 0 <= ti < NT and 0 <= n <= MLEN
  pre: 0 <= c0 < NA and 0 <= c1 < NA and 0 <= c2 < NA
  pre: (n > 0 or c0 == 0) and (n > 1 or c1 == 0) and (n > 2 or c2 == 0)
  pre: n <= 2 or ti % 3 == 1
  pre: (ti + c0) % NPART == PART
  post: _ == True
  """
  vp.enter("mf")
  tmpl, version, dt = TEMPL[vp.concretize(ti, 0, NT - 1)]
  s = _mkstr(n, c0, c1, c2)
  text = tmpl.replace("{}", s)
  res = [_try(text, version, k) for k in (0, 1, 2, 3)]
  vp.reached("mf", ti, s, [r[0] for r in res])
  # accepted at k => accepted at every lower level
  for k in (3, 2, 1):
    if res[k][0] and not res[k - 1][0]: return False
  with NoTracing():
    ambiguous = dt == "oriented_identifier_list_gfa1" and "," in s     # names containing ',' (see C04)
    valid = G.accepts(dt, s) and not ambiguous
  if valid:
    if not all(r[0] for r in res): return False
    ws = [r[1] for r in res]
    # same text at every level (input in canonical spelling; '06X' -> '6X' is the documented normalisation)
    if ws[3] == text and any(w != ws[0] for w in ws): return False
    if any(w != ws[1] for w in ws[1:]): return False
  return True

# assignment targets: (line text, version, field, datatype)
TARGETS = [
  ("S\ta\t*", "gfa1", "sequence", "sequence_gfa1"), ("S\ta\t*\tLN:i:3", "gfa1", "LN", "i"), ("S\ta\t*", "gfa1", "KC", "i"),
  ("S\ta\t*\txx:Z:q", "gfa1", "xx", "Z"), ("S\ta\t*\txx:A:q", "gfa1", "xx", "A"), ("L\ta\t+\tb\t-\t*", "gfa1", "from_orient", "orientation"),
  ("C\ta\t+\tb\t-\t1\t*", "gfa1", "pos", "position_gfa1"), ("E\te\ta+\tb-\t0\t1\t0\t1\t*", "gfa2", "beg1", "position_gfa2"),
  ("S\ta\t5\t*", "gfa2", "slen", "i"), ("G\tg\ta+\tb-\t5\t*", "gfa2", "disp", "i"),
  ("G\tg\ta+\tb-\t5\t*", "gfa2", "var", "optional_integer"), ("E\t*\ta+\tb-\t0\t1\t0\t1\t*", "gfa2", "eid", "optional_identifier_gfa2"),
]
NTG = len(TARGETS)
SLEN = vp.T(1, 2)
MLEN = vp.T(2, 3)

def _valid(dt, v):
  """is the Python value v representable in datatype dt?  (statement-level oracle)"""
  if isinstance(v, str):
    return G.accepts(dt, v)
  if isinstance(v, int):
    if dt == "i": return True
    if dt in ("position_gfa1", "position_gfa2"): return v >= 0
    if dt == "optional_integer": return True
    return False
  return False

def _assign_check(ti, v, level):
  text, version, field, dt = TARGETS[ti]
  line = gfapy.Line(text, version=version, vlevel=level)
  # the valid line itself is accepted by every read and validation, at every level
  try:
    line.validate()
    for fn in line.positional_fieldnames + line.tagnames:
      line.get(fn); line.validate_field(fn); line.field_to_s(fn)
  except gfapy.Error:
    return False
  ok = _valid(dt, v)
  try:
    line.set(field, v)
  except gfapy.Error:
    return (not ok) and level >= 3          # only level 3 validates at the assignment; valid is never rejected
  if not ok and level >= 3: return False    # level 3 must report at the assignment
  # explicit validation reports iff invalid, at every level
  try:
    line.validate_field(field)
    reported = False
  except gfapy.Error:
    reported = True
  if reported != (not ok): return False
  # level 2: no later than when the field is written
  try:
    line.field_to_s(field)
    wrote = True
  except gfapy.Error:
    wrote = False
  if ok and not wrote: return False
  if not ok and level >= 2 and wrote: return False
  return True

AVALS = [0, 1, -1, 5, 10**12, [1, "x"]]

def h_assignment(ti: int, kind: int, vi: int, n: int, c0: int, c1: int, c2: int, vl: int) -> bool:
  """
  pre: 0 <= ti < NTG and 0 <= kind <= 1 and 0 <= vl <= 3 and 0 <= vi < 6
  pre: 0 <= n <= SLEN and 0 <= c0 < NA and 0 <= c1 < NA and 0 <= c2 < NA
  pre: (n > 0 or c0 == 0) and (n > 1 or c1 == 0) and (n > 2 or c2 == 0)
  pre: (kind == 0 or vi == 0) and (kind == 1 or (n == 0 and c0 == 0))
  pre: (ti * 4 + vl) % NPART == PART
  post: _ == True
  """
  vp.enter("as")
  t = vp.concretize(ti, 0, NTG - 1)
  level = vp.concretize(vl, 0, 3)
  k = vp.concretize(kind, 0, 1)
  v = AVALS[vp.concretize(vi, 0, 5)] if k == 0 else _mkstr(n, c0, c1, c2)
  vp.reached("as", t, k, level, v if not isinstance(v, list) else "list")
  return _assign_check(t, v, level)
