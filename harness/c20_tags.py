"""C20: tag values set through the API are written and read back unchanged."""
from typing import List
import re
from vlib import vp
from vlib.vp import gfapy, NoTracing
from spec import gfa_grammar as G

NPART = vp.NPART
PART = vp.PART

META = {
 "property": "C20",
 "harnesses": {
  "h_subtype": {"kind": "K",
    "functions": ["gfapy.numeric_array.NumericArray.compute_subtype", "NumericArray.integer_type", "NumericArray.validate"],
    "bounds": "integer lists of length 1..3 with ANY integers (unbounded z3 Int): the smallest subtype that holds all elements is chosen, arrays outside every range are refused",
    "timeout": {"quick": 120, "thorough": 600}, "twin": False},
  "h_mixed_array": {"kind": "K", "functions": ["NumericArray.compute_subtype"],
    "bounds": "lists of length 2..3 mixing ANY integer with a float in either position: refused", "timeout": {"quick": 120, "thorough": 300}, "twin": False},
  "h_int_tag": {"kind": "L",
    "functions": ["FieldData.set", "Field._get_default_gfa_tag_datatype", "Writer.field_to_s", "Field._to_gfa_tag", "integer.encode/decode", "Line.__init__ (reparse)", "FieldDatatype.get_datatype"],
    "bounds": "20 integer values (0, +-1, decimal-length boundaries, 2^31, 2^63, +-10^20) assigned to a new tag and to the predefined KC tag of S/L lines, vlevel 0..3",
    "timeout": {"quick": 300, "thorough": 900}, "parts": {"quick": 16, "thorough": 16}},
  "h_array_boundaries": {"kind": "L",
    "functions": ["FieldData.set", "numeric_array.encode/decode", "NumericArray.__str__/from_string/compute_subtype", "Writer.field_to_s", "Line.validate_field"],
    "bounds": "integer arrays [B + d1, e] for every subtype boundary B in {0,127,128,255,256,32767,32768,65535,65536,2^31-1,2^31,2^32-1,2^32,-128,-129,-32768,-32769,-2^31,-2^31-1}, d1 in -2..2, e in {0, -1, B}: written with the smallest subtype, read back equal with datatype B; out-of-range refused by validate_field and by writing at vlevel >= 2",
    "timeout": {"quick": 300, "thorough": 900}, "parts": {"quick": 16, "thorough": 16}},
  "h_values": {"kind": "L",
    "functions": ["Field._get_default_gfa_tag_datatype", "string/char/float/json/byte_array/numeric_array encode+decode", "FieldData.set/set_datatype", "Writer.field_to_s"],
    "bounds": "catalogue of 38 Python values (strings incl. tab/newline/non-printable/empty, characters, finite and non-finite floats, nested JSON lists/dicts, JSON containing tabs/newlines, int and float lists, empty list, ByteArray of 1-2 bytes, NumericArray, mixed list) x vlevel 0..3 x {new tag with default datatype, tag with declared datatype}",
    "timeout": {"quick": 300, "thorough": 900}, "parts": {"quick": 8, "thorough": 8}},
  "h_redefine": {"kind": "L",
    "functions": ["FieldData.set/delete/get_datatype/set_datatype", "Line._field_or_default_datatype", "Writer.field_to_s", "Line.__init__"],
    "bounds": "a tag is set to one of 6 representative values (Z, f, i, J, B, H), removed with delete() and defined again with ANY representable value of the catalogue (38 values), on an S, H or L line, vlevel 0..3: the new tag gets the default datatype of its new value, is written grammatically and reads back with the same datatype and an equal value",
    "timeout": {"quick": 300, "thorough": 600}, "parts": {"quick": 8, "thorough": 8}},
  "h_float_text": {"kind": "L",
    "functions": ["gfapy.field.float.decode/unsafe_decode/validate_encoded/validate_decoded/encode", "Line.__init__/get/field_to_s", "Writer"],
    "bounds": "f tags given as text '<m>e<x>' with mantissa from {1, -1, 1.5, 9.9} and exponent from {0, 37, 38, 39, 307, 308, 309, 400, 999, -400}, on an S line read at vlevel 0..3: either the value is read, written as a grammatical f field and read back equal, or the line/field access raises a gfapy error; a non-finite value is never stored or written",
    "timeout": {"quick": 200, "thorough": 400}, "parts": {"quick": 4, "thorough": 4}},
  "h_string_tag": {"kind": "L",
    "functions": ["string.encode/decode/validate_encoded", "char.encode/decode", "FieldData.set", "Writer.field_to_s", "Line.__init__"],
    "bounds": "every string of length <= 3 (no newline: E2 decides newline) assigned to a Z tag and, length 1, to an A tag, vlevel 1..3",
    "timeout": {"quick": 300, "thorough": 900}, "parts": {"quick": 6, "thorough": 6}},
 },
}

RANGES = [("C", 0, 255), ("S", 0, 65535), ("I", 0, 2**32 - 1), ("c", -128, 127), ("s", -32768, 32767), ("i", -2**31, 2**31 - 1)]

def _want_subtype(xs):
  lo, hi = min(xs), max(xs)
  if lo < 0:
    for st, a, b in RANGES[3:]:
      if a <= lo and hi <= b: return st
  else:
    for st, a, b in RANGES[:3]:
      if hi <= b: return st
  return None

def h_subtype(xs: List[int]) -> bool:
  """
  pre: 1 <= len(xs) <= 3
  post: _ == True
  """
  vp.enter("st")
  want = _want_subtype(xs)
  na = gfapy.NumericArray(list(xs))
  try:
    got = na.compute_subtype()
  except gfapy.ValueError:
    return want is None
  if got != want: return False
  try:
    na.validate()
  except gfapy.Error:
    return False
  return gfapy.NumericArray.integer_type((min(xs), max(xs))) == want

def h_mixed_array(a: int, b: int, pos: int) -> bool:
  """
  pre: 0 <= pos <= 2
  post: _ == True
  """
  vp.enter("mx")
  xs = [a, b]
  xs.insert(vp.concretize(pos, 0, 2), 1.5)
  try:
    gfapy.NumericArray(xs).compute_subtype()
    return False
  except gfapy.ValueError:
    return True

INTS = [0, 1, -1, 9, 10, -10, 99, 100, -101, 255, 256, 12345, -99999, 2**31 - 1, 2**31, -2**31 - 1, 2**63, -2**64, 10**20, -10**20 + 1]
NI = len(INTS)
HOSTS = ["S\ta\t*", "L\ta\t+\tb\t-\t*", "H", "E\te\ta+\tb-\t0\t1\t0\t1\t*"]

def h_int_tag(ni: int, host: int, predefined: bool, vl: int) -> bool:
  """
  pre: 0 <= ni < NI and 0 <= host < 4 and 0 <= vl <= 3
  pre: (host * 4 + vl) % NPART == PART
  post: _ == True
  """
  vp.enter("it")
  n = INTS[vp.concretize(ni, 0, NI - 1)]
  text = vp.pick(HOSTS, host)
  level = vp.concretize(vl, 0, 3)
  line = gfapy.Line(text, vlevel=level)
  tag = "KC" if (predefined and text[0] in "SL") else "xx"
  line.set(tag, n)
  vp.reached("it", text[0], tag, level)
  if line.get(tag) != n or line.get_datatype(tag) != "i": return False
  w = line.field_to_s(tag, True)
  if w != tag + ":i:" + str(n): return False
  line.validate_field(tag)
  back = gfapy.Line(str(line), vlevel=level)
  return back.get(tag) == n and back.get_datatype(tag) == "i"

BOUNDS = [0, 127, 128, 255, 256, 32767, 32768, 65535, 65536, 2**31 - 1, 2**31, 2**32 - 1, 2**32,
          -128, -129, -32768, -32769, -2**31, -2**31 - 1]
NB = len(BOUNDS)

def h_array_boundaries(bi: int, d1: int, ek: int, vl: int) -> bool:
  """
  pre: 0 <= bi < NB and -2 <= d1 <= 2 and 0 <= ek <= 2 and 0 <= vl <= 3
  pre: bi % NPART == PART
  post: _ == True
  """
  vp.enter("ab")
  B = BOUNDS[vp.concretize(bi, 0, NB - 1)]
  x = B + vp.concretize(d1, -2, 2)
  e = [0, -1, B][vp.concretize(ek, 0, 2)]
  xs = [x, e]
  level = vp.concretize(vl, 0, 3)
  want = _want_subtype(xs)
  line = gfapy.Line("S\ta\t*", vlevel=level)
  vp.reached("ab", xs, level, want)
  try:
    line.set("xx", list(xs))
  except gfapy.Error:
    return want is None and level >= 3
  if want is None:
    # a value the datatype cannot represent: reported by validation and by writing at level >= 2
    try:
      line.validate_field("xx")
      return False
    except gfapy.Error:
      pass
    try:
      w = line.field_to_s("xx", True)
    except gfapy.Error:
      return True
    return level < 2                      # writing the tag at level >= 2 must report it
  if line.get_datatype("xx") != "B": return False
  w = line.field_to_s("xx", True)
  if w != "xx:B:" + want + "," + str(x) + "," + str(e): return False
  with NoTracing():
    if not G.accepts("B", w[5:]): return False
  back = gfapy.Line(str(line), vlevel=level)
  v = back.get("xx")
  return list(v) == xs and back.get_datatype("xx") == "B" and isinstance(v, gfapy.NumericArray)

INF = float("inf")
VALUES = [
  ("a", "Z"), ("hello world", "Z"), ("x:y:z", "Z"), ("tab\there", None), ("nl\nhere", None), ("", None), ("\x7f", None), ("café", None),
  (0.0, "f"), (1.5, "f"), (-2.25, "f"), (1e10, "f"), (1e-7, "f"), (123456789.125, "f"), (1e300, "f"), (INF, None), (-INF, None), (float("nan"), None),
  ({}, "J"), ({"a": 1}, "J"), ([1, [2, {"b": []}]], "J"), ({"k": "v w"}, "J"), (["tab\t"], "J"), (["nl\n"], "J"), ([1, "a"], "J"), ([None, True], "J"),
  ([1, 2, 3], "B"), ([1.5, 2.0], "B"), ([-1, 300], "B"), ([2**32], None), ([1, 2.5], "J"),
  (gfapy.ByteArray([0]), "H"), (gfapy.ByteArray([171, 255]), "H"), (gfapy.NumericArray([1, -1]), "B"), (gfapy.NumericArray([0.5]), "B"),
  (7, "i"), (-7, "i"), ({"x": [1.5, {"y": None}]}, "J"),
]
NV = len(VALUES)

def _eq(a, b):
  if isinstance(a, float) and isinstance(b, float): return a == b
  if isinstance(a, (list, gfapy.NumericArray)) and isinstance(b, (list, gfapy.NumericArray)): return list(a) == list(b)
  return a == b

def h_values(vi: int, vl: int, declared: bool) -> bool:
  """
  pre: 0 <= vi < NV and 0 <= vl <= 3
  pre: vi % NPART == PART
  post: _ == True
  """
  vp.enter("va")
  v, dt = VALUES[vp.concretize(vi, 0, NV - 1)]
  level = vp.concretize(vl, 0, 3)
  line = gfapy.Line("S\ta\t*", vlevel=level)
  vp.reached("va", vi, level, declared)
  try:
    if declared and dt is not None:
      line.set_datatype("xx", dt)
    line.set("xx", v)
  except gfapy.Error:
    return dt is None and level >= 3        # a valid assignment is never rejected
  if dt is None:
    # not representable: validation reports it; writing at level >= 2 reports it
    try:
      line.validate_field("xx")
      return False
    except gfapy.Error:
      pass
    try:
      w = line.field_to_s("xx", True)
    except gfapy.Error:
      return True
    if level >= 2: return False           # writing the tag at level >= 2 must report it
    return True
  if line.get_datatype("xx") != dt: return False
  w = line.field_to_s("xx", True)
  with NoTracing():
    m = re.fullmatch(r"xx:([AifZJHB]):(.+)", w, re.S)
    if not m or m.group(1) != dt or not G.accepts(dt, m.group(2)): return False
  line.validate_field("xx")
  text = vp.plain(str(line))
  if "\txx:B:f," in text:
    # cut: CrossHair cannot trace NumericArray.from_string for the f subtype (its nested generator closes over a
    # variable that stays unassigned: 'Cell is empty' inside the tracer) -> float arrays are re-parsed untraced
    with NoTracing():
      back = gfapy.Line(text, vlevel=level)
      back.get("xx")
  else:
    back = gfapy.Line(text, vlevel=level)
  if back.get_datatype("xx") != dt: return False
  return _eq(back.get("xx"), (int(v) if isinstance(v, bool) else v))

def h_string_tag(s: str, kind: bool, vl: int) -> bool:
  """
  pre: len(s) <= 3 and "\\n" not in s
  pre: 1 <= vl <= 3
  pre: (2 * (vl - 1) + kind) % NPART == PART
  post: _ == True
  """
  vp.enter("sz")
  level = vp.concretize(vl, 1, 3)
  dt = "A" if kind else "Z"
  line = gfapy.Line("S\ta\t*", vlevel=level)
  ok = G.accepts(dt, s)
  try:
    line.set_datatype("xx", dt)
    line.set("xx", s)
  except gfapy.Error:
    return (not ok) and level >= 3
  if not ok:
    if level >= 3: return False            # level 3 reports at the assignment
    try:
      line.validate_field("xx")
      return False
    except gfapy.Error:
      pass
    if level >= 2:
      try:
        line.field_to_s("xx", True)
        return False
      except gfapy.Error:
        return True
    return True
  vp.reached("sz", dt, level)
  w = line.field_to_s("xx", True)
  if w != "xx:" + dt + ":" + s: return False
  back = gfapy.Line(str(line), vlevel=level)
  return back.get("xx") == s and back.get_datatype("xx") == dt


FMANT = ["1", "-1", "1.5", "9.9"]
FEXP = ["0", "37", "38", "39", "307", "308", "309", "400", "999", "-400"]

def h_float_text(mi: int, xi: int, vl: int) -> bool:
  """
  pre: 0 <= mi < 4 and 0 <= xi < 10 and 0 <= vl <= 3
  pre: xi % NPART == PART
  post: _ == True
  """
  vp.enter("ft")
  text = "S\ta\t*\txx:f:" + FMANT[vp.concretize(mi, 0, 3)] + "e" + FEXP[vp.concretize(xi, 0, 9)]
  level = vp.concretize(vl, 0, 3)
  vp.reached("ft", text, level)
  try:
    line = gfapy.Line(text, vlevel=level)
    whole = vp.plain(str(line))              # written before the field is asked for
  except gfapy.Error:
    return True
  with NoTracing():
    f = whole.split("\t")
    if len(f) != 4 or not re.fullmatch(r"xx:f:(.+)", f[3]) or not G.accepts("f", f[3][5:]): return False
  try:
    v = line.get("xx")
    w = line.field_to_s("xx", True)
  except gfapy.Error:
    return True
  with NoTracing():
    import math
    if not isinstance(v, float) or not math.isfinite(v): return False
    m = re.fullmatch(r"xx:f:(.+)", w)
    if not m or not G.accepts("f", m.group(1)): return False
    back = gfapy.Line("S\ta\t*\t" + w, vlevel=level)
    return back.get("xx") == v


FIRST = ["q", 1.5, 7, {"a": 1}, [1, 2], gfapy.ByteArray([1])]
RD_HOSTS = ["S\ta\t*", "H\tVN:Z:1.0", "L\ta\t+\tb\t-\t*"]

def h_redefine(fi: int, vi: int, hi: int, vl: int) -> bool:
  """
  pre: 0 <= fi < 6 and 0 <= vi < NV and 0 <= hi < 3 and 0 <= vl <= 3
  pre: (fi + vi) % NPART == PART
  post: _ == True
  """
  vp.enter("rd")
  first = FIRST[vp.concretize(fi, 0, 5)]
  v, dt = VALUES[vp.concretize(vi, 0, NV - 1)]
  if dt is None: return True
  level = vp.concretize(vl, 0, 3)
  line = gfapy.Line(RD_HOSTS[vp.concretize(hi, 0, 2)], vlevel=level)
  vp.reached("rd", fi, vi, hi, level)
  line.set("xx", first)
  line.delete("xx")          # (set(tag, None) keeps a declared datatype, like set_datatype before set: not claimed)
  if "xx" in line.tagnames: return False
  line.set("xx", v)                      # a valid assignment of a new tag is never rejected
  if line.get_datatype("xx") != dt: return False
  w = line.field_to_s("xx", True)
  with NoTracing():
    m = re.fullmatch(r"xx:([AifZJHB]):(.+)", w, re.S)
    if not m or m.group(1) != dt or not G.accepts(dt, m.group(2)): return False
    back = gfapy.Line("S\ta\t*\t" + w, vlevel=level)
    if back.get_datatype("xx") != dt: return False
    return _eq(back.get("xx"), v)
