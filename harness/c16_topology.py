"""C16: connected components and topology counts agree with the graph."""
from vlib import vp
from vlib.vp import gfapy, NoTracing
from harness import histlib as H
from spec import nbhd

NPART = vp.NPART
PART = vp.PART
_FUNCS = ["Topology.connected_components", "Topology.segment_connected_component", "Topology.__traverse_component",
          "Topology.n_dovetails/n_containments/n_internals/n_dead_ends", "FromTo.other_end", "Segment.dovetails_of_end",
          "edge gfa2 References._refkey_for_s"]

META = {
 "property": "C16",
 "harnesses": {
  "h_shapes_gfa1": {"kind": "G", "functions": _FUNCS,
    "bounds": "GFA1 graphs on 4 segments a..d: edge 1 from a (any kind L/C, target, orientations: 32), edge 2 fully free (128), thorough: + a link leaving c (4 of its 16 forms): self links, hairpins, parallel edges, cycles, trees, isolated segments, containment-only relations; all combinations",
    "timeout": {"quick": 400, "thorough": 900}, "parts": {"quick": 16, "thorough": 16}},
  "h_shapes_gfa2": {"kind": "G", "functions": _FUNCS,
    "bounds": "GFA2 graphs on 3 segments of length 10 with 2 E lines: endpoints (a->{a,b}; {a,b,c}->{b,c}), all orientation pairs, 7 interval-pattern pairs (suffix/prefix, prefix/suffix, prefix/prefix, inner/whole, whole/whole, inner/inner, empty/empty); all 56 x 168 combinations",
    "timeout": {"quick": 400, "thorough": 900}, "parts": {"quick": 16, "thorough": 16}},
  "h_after_history": {"kind": "G", "functions": _FUNCS + ["Gfa.rm", "Gfa.add_line", "Line.disconnect"],
    "bounds": "base states of histlib x every history of 1 (quick) / 2 (thorough) steps over {rm, add_line, disconnect}: oracle re-evaluated on the written text after every step",
    "timeout": {"quick": 400, "thorough": 900}, "parts": {"quick": 16, "thorough": 16}},
 },
}

SEGS = ["a", "b", "c", "d"]
ORI = ["+", "-"]
THOROUGH = not vp.QUICK

def _gfa1_edge(g, i, kind, f, t, fo, to):
  ov = str(i + 1) + "M"     # distinct overlaps: parallel links are different edges
  text = kind + "\t" + f + "\t" + fo + "\t" + t + "\t" + to + "\t" + (ov if kind == "L" else "0\t" + ov)
  g.add_line(text)

def h_shapes_gfa1(e1: int, e2: int, e3: int) -> bool:
  """
  pre: 0 <= e1 < 32 and 0 <= e2 < 128 and 0 <= e3 < 16
  pre: (THOROUGH and e3 % 4 == 0) or e3 == 0
  pre: (e1 + e2) % NPART == PART
  post: _ == True
  """
  vp.enter("s1")
  with NoTracing():
    g = gfapy.Gfa(["S\t" + s + "\t*" for s in SEGS])
  # edge 1: from a (naming symmetry), any kind/target/orientations
  c = vp.concretize(e1, 0, 31)
  _gfa1_edge(g, 0, "L" if c % 2 == 0 else "C", "a", SEGS[(c // 2) % 4], ORI[(c // 8) % 2], ORI[(c // 16) % 2])
  # edge 2: fully free
  c = vp.concretize(e2, 0, 127)
  _gfa1_edge(g, 1, "L" if c % 2 == 0 else "C", SEGS[(c // 2) % 4], SEGS[(c // 8) % 4], ORI[(c // 32) % 2], ORI[(c // 64) % 2])
  if THOROUGH:
    # edge 3: a link leaving c (closes cycles / joins components)
    c = vp.concretize(e3, 0, 15)
    _gfa1_edge(g, 2, "L", "c", SEGS[c % 4], ORI[(c // 4) % 2], ORI[(c // 8) % 2])
  vp.reached("s1", e1, e2, e3)
  with NoTracing():
    return not nbhd.topology_check(g) and not nbhd.check(g)

# interval patterns of the two sides on segments of length 10, by intended class
PAT = [(("6", "10$"), ("0", "4")),     # suffix / prefix
       (("0", "4"), ("6", "10$")),     # prefix / suffix
       (("0", "4"), ("0", "4")),       # prefix / prefix
       (("2", "8"), ("0", "10$")),     # inner / whole
       (("0", "10$"), ("0", "10$")),   # whole / whole
       (("3", "7"), ("2", "6")),       # inner / inner
       (("0", "0"), ("10$", "10$"))]   # empty prefix / empty suffix

def _gfa2_edge(g, i, f, t, fo, to, p):
  g.add_line("E\te" + str(i) + "\t" + f + fo + "\t" + t + to + "\t" + p[0][0] + "\t" + p[0][1] + "\t" + p[1][0] + "\t" + p[1][1] + "\t*")

def h_shapes_gfa2(e1: int, e2: int) -> bool:
  """
  pre: 0 <= e1 < 56 and 0 <= e2 < 168
  pre: (e1 + e2) % NPART == PART
  post: _ == True
  """
  vp.enter("s2")
  with NoTracing():
    g = gfapy.Gfa(["S\t" + s + "\t10\t*" for s in SEGS[:3]])
  c = vp.concretize(e1, 0, 55)       # a -> {a, b}
  _gfa2_edge(g, 0, "a", SEGS[c % 2], ORI[(c // 2) % 2], ORI[(c // 4) % 2], PAT[(c // 8) % 7])
  c = vp.concretize(e2, 0, 167)      # {a, b, c} -> {b, c}
  _gfa2_edge(g, 1, SEGS[c % 3], SEGS[1 + (c // 3) % 2], ORI[(c // 6) % 2], ORI[(c // 12) % 2], PAT[(c // 24) % 7])
  vp.reached("s2", e1, e2)
  with NoTracing():
    return not nbhd.topology_check(g) and not nbhd.check(g)

BASEKEYS = ["gfa1", "gfa1b", "gfa2", "gfa2b"]
TAB = {b: H.step_table(b, [0, 1, 3]) for b in BASEKEYS}
NT = max(len(t) for t in TAB.values())

def h_after_history(bi: int, c1: int, c2: int) -> bool:
  """
  pre: 0 <= bi < 4 and 0 <= c1 < NT and 0 <= c2 < NT
  pre: THOROUGH or c2 == 0
  pre: (c1 + c2 + bi) % NPART == PART
  post: _ == True
  """
  vp.enter("hh")
  base = vp.pick(BASEKEYS, bi)
  tab = TAB[base]
  if c1 >= len(tab) or c2 >= len(tab): return True
  return H.run(base, tab, [c1, c2] if THOROUGH else [c1], "C16", "hh")
