"""C12 (L/G): a link and its complement are one edge."""
from typing import List, Tuple
from vlib import vp
from vlib.vp import gfapy, NoTracing
from spec.observe import observe, diff_obs, invariant, line_text, canon_text, cigar_complement_text

NPART = vp.NPART
PART = vp.PART

META = {
 "property": "C12",
 "harnesses": {
  "h_link_laws": {"kind": "L",
    "functions": ["gfapy.line.edge.link.complement.Complement.complement", "Equivalence.is_same/is_complement/is_eql/is_compatible/is_compatible_direct/is_compatible_complement",
                  "CIGAR.complement", "CIGAR.Operation.__eq__", "FromTo.from_end/to_end", "SegmentEnd.__eq__", "Line.clone", "OrientedLine.__eq__/inverted"],
    "bounds": "link between a and b or a self link (a,a: hairpins and same-orientation self links included), both orientations symbolic, CIGAR of 0..2 (quick) / 0..3 (thorough) operations over {M,I,D,P,=,X,H} with ANY integer lengths (0 operations = placeholder '*')",
    "timeout": {"quick": 300, "thorough": 900}, "parts": {"quick": 16, "thorough": 16}},
  "h_link_distinct": {"kind": "L",
    "functions": ["Equivalence.is_same/is_complement/is_eql", "CIGAR.complement", "CIGAR.Operation.__eq__", "FromTo.from_end/to_end", "SegmentEnd.__eq__"],
    "bounds": "as h_link_laws; the second link differs in exactly one aspect: from orientation / to orientation / to segment / one operation length (+1) / one operation code / the complement ends with the overlap left unspecified on one side only / the same ends likewise",
    "timeout": {"quick": 300, "thorough": 900}, "parts": {"quick": 16, "thorough": 16}},
  "h_add_complement": {"kind": "G",
    "functions": ["Gfa.add_line", "Connection.connect", "Finders._search_duplicate/_search_link", "link References._process_not_unique",
                  "Equivalence.is_compatible/is_complement", "path References._initialize_links", "UpdateReferences.__update_reference_in_list", "Gfa.validate"],
    "bounds": "graph of 3 segments; stored link with 6 overlaps (incl. asymmetric I/D CIGARs and '*') x 4 orientation pairs x {a->b, self link}; adding its exact complement (before or after a path over it arrives, path written along or against the link): nothing raised, dovetails and stored text unchanged, lookup from either form finds the stored link, path.links orientation flag per oracle",
    "timeout": {"quick": 300, "thorough": 900}, "parts": {"quick": 8, "thorough": 16}},
  "h_path_three_links": {"kind": "G", "tiers": ["thorough"],
    "functions": ["path References._compute_required_links/_initialize_links", "Finders._search_link", "CapturedPath (P lines)", "VirtualToReal"],
    "bounds": "path over 3 links a-b-c-d, each link stored in either form (3 bits), path written forwards or backwards, all 5! arrival orders of the 4 link/path lines + 1 segment line",
    "timeout": {"thorough": 900}, "parts": {"thorough": 16}},
 },
}

CODES = ["M", "I", "D", "P", "=", "X", "H"]
ORI = ["-", "+"]
INV = {"+": "-", "-": "+"}
SW = {"I": "D", "D": "I"}
MAXOPS = vp.T(2, 3)

def _mk_link(f, fo, t, to, pairs):
  ov = gfapy.CIGAR([gfapy.CIGAR.Operation(n, c) for (c, n) in pairs]) if pairs else gfapy.AlignmentPlaceholder()
  return gfapy.line.edge.Link({"from_segment": f, "from_orient": fo, "to_segment": t, "to_orient": to, "overlap": ov},
                              version="gfa1")

def _fields(l):
  ov = l.overlap
  return (l.from_segment, l.from_orient, l.to_segment, l.to_orient,
          [(op.code, op.length) for op in ov] if isinstance(ov, gfapy.CIGAR) else "*")

def _setup(pf, pt, selfl, ops):
  fo, to = ORI[pf], ORI[pt]
  f, t = "a", ("a" if selfl else "b")
  pairs = [(vp.pick(CODES, c), n) for (c, n) in ops]
  return fo, to, f, t, pairs

def h_link_laws(pf: bool, pt: bool, selfl: bool, ops: List[Tuple[int, int]]) -> bool:
  """
  pre: 0 <= len(ops) <= MAXOPS
  pre: all(0 <= c < 7 and 0 <= n for (c, n) in ops)
  pre: (4 * selfl + 2 * pf + pt + 8 * (len(ops) % 2)) % NPART == PART
  post: _ == True
  """
  vp.enter("ll")
  fo, to, f, t, pairs = _setup(pf, pt, selfl, ops)
  l = _mk_link(f, fo, t, to, pairs)
  before = _fields(l)
  c = l.complement()
  vp.reached("ll", fo, to, selfl, len(ops))
  # complement: segments swapped, both orientations inverted, CIGAR reversed with I<->D
  want_c = (t, INV[to], f, INV[fo], [(SW.get(k, k), n) for (k, n) in reversed(pairs)] if pairs else "*")
  if _fields(c) != want_c: return False
  if _fields(l) != before: return False                     # receiver untouched
  if _fields(c.complement()) != before: return False        # involution
  # the same edge, from either side; asked twice
  if not (l.is_complement(c) and c.is_complement(l) and l.is_complement(c)): return False
  if not (l.is_eql(c) and c.is_eql(l) and l.is_eql(l)): return False
  if not l.is_same(l): return False
  if l.is_same(c) != c.is_same(l): return False
  if not l.is_compatible(c.oriented_from, c.oriented_to, c.overlap, True): return False
  if not c.is_compatible(l.oriented_from, l.oriented_to, l.overlap, True): return False
  if not l.is_compatible_direct(l.oriented_from, l.oriented_to, l.overlap): return False
  if not l.is_compatible_complement(c.oriented_from, c.oriented_to, c.overlap): return False
  # canonical form: exactly one of the two forms is canonical unless the link is its own complement modulo the
  # overlap (a hairpin), and canonicize() answers that form from either side without touching the receiver
  for x in (l, c):
    k = x.canonicize()
    if not k.is_canonical(): return False
    if _fields(k) not in (before, want_c): return False
    if x.is_canonical() and _fields(k) != _fields(x): return False
  if (f, fo, t, to) != (t, INV[to], f, INV[fo]) and l.is_canonical() == c.is_canonical(): return False
  return _fields(l) == before and _fields(c) == want_c

def h_link_distinct(pf: bool, pt: bool, selfl: bool, ops: List[Tuple[int, int]], vary: int) -> bool:
  """
  pre: 0 <= len(ops) <= MAXOPS
  pre: all(0 <= c < 7 and 0 <= n for (c, n) in ops)
  pre: 0 <= vary < 7
  pre: (4 * selfl + 2 * pf + pt + 8 * (vary % 2)) % NPART == PART
  post: _ == True
  """
  vp.enter("ld")
  fo, to, f, t, pairs = _setup(pf, pt, selfl, ops)
  l = _mk_link(f, fo, t, to, pairs)
  # a link differing in anything but the complement symmetry is a different edge
  v = vp.concretize(vary, 0, 6)
  if v == 0:
    d = _mk_link(f, INV[fo], t, to, pairs)
  elif v == 1:
    d = _mk_link(f, fo, t, INV[to], pairs)
  elif v == 2:
    d = _mk_link(f, fo, "z", to, pairs)
  elif v == 3:
    if not pairs: return True
    d = _mk_link(f, fo, t, to, [(pairs[0][0], pairs[0][1] + 1)] + pairs[1:])
  elif v == 5:
    # the complement ends, but the overlap left unspecified on one of the two links only
    if not pairs: return True
    d = _mk_link(t, INV[to], f, INV[fo], [])
  elif v == 6:
    if not pairs: return True
    d = _mk_link(f, fo, t, to, [])
  else:
    if not pairs: return True
    k0 = pairs[-1][0]
    d = _mk_link(f, fo, t, to, pairs[:-1] + [("M" if k0 != "M" else "X", pairs[-1][1])])
  vp.reached("ld", fo, to, selfl, len(ops), v)
  # oracle on plain values: the two ends touched and the alignment
  def ends(x):
    return ((x[0], "R" if x[1] == "+" else "L"), (x[2], "L" if x[3] == "+" else "R"), x[4])
  fl, fd = _fields(l), _fields(d)
  same_oracle = ends(fl) == ends(fd)
  comp_of_d = (fd[2], INV[fd[3]], fd[0], INV[fd[1]], [(SW.get(k, k), n) for (k, n) in reversed(fd[4])] if fd[4] != "*" else "*")
  comp_oracle = ends(fl) == ends(comp_of_d)
  if l.is_same(d) != same_oracle or d.is_same(l) != same_oracle: return False
  if l.is_complement(d) != comp_oracle or d.is_complement(l) != comp_oracle: return False
  if l.is_eql(d) != (same_oracle or comp_oracle) or d.is_eql(l) != (same_oracle or comp_oracle): return False
  return True

OVS = ["1M1D2M", "2I1M", "3M", "*", "1M1I1D", "2M1X"]

def h_add_complement(oi: int, pf: bool, pt: bool, selfl: bool, order: int, against: bool) -> bool:
  """
  pre: 0 <= oi < 6 and 0 <= order < 3
  pre: (oi * 4 + 2 * pf + pt) % NPART == PART
  post: _ == True
  """
  vp.enter("ac")
  fo, to = ORI[pf], ORI[pt]
  ov = vp.pick(OVS, oi)
  t = "a" if selfl else "b"
  link = "L\ta\t" + fo + "\t" + t + "\t" + to + "\t" + ov
  comp = "L\t" + t + "\t" + INV[to] + "\ta\t" + INV[fo] + "\t" + cigar_complement_text(ov)
  pov = ov if not against else cigar_complement_text(ov)
  path = ("P\tp\ta" + fo + "," + t + to + "\t" + pov) if not against else ("P\tp\t" + t + INV[to] + ",a" + INV[fo] + "\t" + pov)
  with NoTracing():
    g = gfapy.Gfa(["S\ta\t*", "S\tb\t*", "S\tc\t*"])
  o = vp.concretize(order, 0, 2)
  seq = [[link, comp, path], [link, path, comp], [path, link, comp]][o]
  for x in seq:
    g.add_line(x)        # adding the complement must raise nothing
  vp.reached("ac", link, o, against)
  with NoTracing():
    links = [l for l in g.dovetails]
    if len(links) != 1 or links[0].virtual: return False
    if line_text(links[0]) != link: return False               # stored text unchanged (also its CIGAR)
    if invariant(g): return False
    try:
      g.validate()
    except gfapy.Error:
      return False
    # lookup by oriented pair from either form
    l = links[0]
    a, tt = g.segment("a"), g.segment(t)
    for (x, y, c) in ((gfapy.OrientedLine(a, fo), gfapy.OrientedLine(tt, to), ov),
                      (gfapy.OrientedLine(tt, INV[to]), gfapy.OrientedLine(a, INV[fo]), cigar_complement_text(ov))):
      if g._search_link(x, y, c) is not l: return False
    # the path records whether it traverses the stored link forwards or reversed
    p = g.line("p")
    pl = p.links
    if len(pl) != 1 or pl[0].line is not l: return False
    self_comp = (link.split("\t")[1:6] == comp.split("\t")[1:6])
    if not self_comp and pl[0].orient != ("-" if against else "+"): return False
    if [str(x) for x in p.captured_path] is None: return False
  return True

def h_path_three_links(code: int, f1: bool, f2: bool, f3: bool, back: bool) -> bool:
  """
  pre: 0 <= code < 120
  pre: code % NPART == PART
  post: _ == True
  """
  vp.enter("p3")
  # (decided here, under tracing: the values are used untraced below)
  f1, f2, f3, back = (True if f1 else False), (True if f2 else False), (True if f3 else False), (True if back else False)
  base = [("a", "+", "b", "-", "1M1D2M"), ("b", "-", "c", "+", "2I1M"), ("c", "+", "d", "+", "3M")]
  def form(x, comp):
    if comp: x = (x[2], INV[x[3]], x[0], INV[x[1]], cigar_complement_text(x[4]))
    return "L\t" + "\t".join(x)
  links = [form(base[0], f1), form(base[1], f2), form(base[2], f3)]
  if not back:
    path = "P\tp\ta+,b-,c+,d+\t1M1D2M,2I1M,3M"
  else:
    path = "P\tp\td-,c-,b+,a-\t" + ",".join(cigar_complement_text(x) for x in ("3M", "2I1M", "1M1D2M"))
  doc = links + [path, "S\td\t*"]
  p = vp.perm_from(code, 5)
  with NoTracing():
    g = gfapy.Gfa(["S\ta\t*", "S\tb\t*", "S\tc\t*"])
  for i in p:
    g.add_line(doc[i])
  vp.reached("p3", p, f1, f2, f3, back)
  with NoTracing():
    try:
      g.validate()
    except gfapy.Error:
      return False
    if invariant(g): return False
    pl = g.line("p").links
    stored = [form(base[0], f1), form(base[1], f2), form(base[2], f3)]
    want = []
    order = [0, 1, 2] if not back else [2, 1, 0]
    for j in order:
      comp_stored = [f1, f2, f3][j]
      want.append((stored[j], "-" if (comp_stored != back) else "+"))
    got = [(line_text(x.line), x.orient) for x in pl]
    if got != want: return False
    if any(x.line.virtual for x in pl): return False
  return True
