"""C12 (K): algebraic laws of CIGAR.complement over symbolic operation lists."""
from typing import List, Tuple
from vlib import vp
from vlib.vp import gfapy, NoTracing

META = {
 "property": "C12",
 "harnesses": {
  "h_cigar_involution": {
    "kind": "K", "functions": ["gfapy.alignment.cigar.CIGAR.complement", "CIGAR.Operation.__eq__", "CIGAR.__str__"],
    "bounds": "CIGAR of 1..3 (quick) / 1..4 (thorough) operations, code in {M,I,D,P,=,X,H}, length any integer >= 0 (unbounded z3 Int)",
    "timeout": {"quick": 90, "thorough": 600}, "parts": {"quick": 1, "thorough": 1}},
  "h_cigar_lengths_exchanged": {
    "kind": "K", "functions": ["CIGAR.complement", "CIGAR.length_on_reference", "CIGAR.length_on_query"],
    "bounds": "as h_cigar_involution", "timeout": {"quick": 90, "thorough": 600}},
  "h_cigar_receiver_unchanged": {
    "kind": "K", "functions": ["CIGAR.complement"],
    "bounds": "as h_cigar_involution", "timeout": {"quick": 90, "thorough": 600}},
 },
}

CODES = ["M", "I", "D", "P", "=", "X", "H"]
SWAP = {"I": "D", "D": "I"}
MAXOPS = vp.T(3, 4)

def _mk(ops):
  return gfapy.CIGAR([gfapy.CIGAR.Operation(n, vp.pick(CODES, c)) for (c, n) in ops])

def _pairs(cig):
  return [(op.code, op.length) for op in cig]

def h_cigar_involution(ops: List[Tuple[int, int]]) -> bool:
  """
  pre: 1 <= len(ops) <= MAXOPS
  pre: all(0 <= c < 7 and 0 <= n for (c, n) in ops)
  post: _ == True
  """
  vp.enter("inv", len(ops))
  cig = _mk(ops)
  want = [(vp.pick(CODES, c), n) for (c, n) in ops]
  cc = cig.complement().complement()
  vp.reached("inv", len(ops))
  if not isinstance(cc, gfapy.CIGAR): return False
  return _pairs(cc) == want

def h_cigar_lengths_exchanged(ops: List[Tuple[int, int]]) -> bool:
  """
  pre: 1 <= len(ops) <= MAXOPS
  pre: all(0 <= c < 7 and 0 <= n for (c, n) in ops)
  post: _ == True
  """
  vp.enter("len", len(ops))
  # independent oracle: reference consumes M,=,X,D ; query consumes M,=,X,I
  ref = sum(n for (c, n) in ops if vp.pick(CODES, c) in ("M", "=", "X", "D"))
  qry = sum(n for (c, n) in ops if vp.pick(CODES, c) in ("M", "=", "X", "I"))
  cig = _mk(ops)
  if cig.length_on_reference() != ref or cig.length_on_query() != qry: return False
  comp = _mk(ops).complement()
  vp.reached("len", len(ops))
  # complement = reversed, I<->D
  want = [(SWAP.get(vp.pick(CODES, c), vp.pick(CODES, c)), n) for (c, n) in reversed(ops)]
  if _pairs(comp) != want: return False
  return comp.length_on_reference() == qry and comp.length_on_query() == ref

def h_cigar_receiver_unchanged(ops: List[Tuple[int, int]]) -> bool:
  """
  pre: 1 <= len(ops) <= MAXOPS
  pre: all(0 <= c < 7 and 0 <= n for (c, n) in ops)
  post: _ == True
  """
  vp.enter("pure", len(ops))
  cig = _mk(ops)
  want = [(vp.pick(CODES, c), n) for (c, n) in ops]
  c1 = cig.complement()
  vp.reached("pure", len(ops))
  if _pairs(cig) != want: return False          # receiver untouched by one call
  snap = _pairs(c1)
  c2 = cig.complement()
  # asking twice gives the same answer, the first answer is not disturbed
  return _pairs(cig) == want and _pairs(c2) == snap and _pairs(c1) == snap
