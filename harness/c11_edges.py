"""C11: segment neighbourhoods match the specification's edge semantics."""
from vlib import vp
from vlib.vp import gfapy, NoTracing
from spec import edgesem, nbhd

META = {
 "property": "C11",
 "harnesses": {
  "h_e_classification": {
    "kind": "K/L",
    "functions": ["gfapy.line.edge.gfa2.alignment_type.AlignmentType._substring_type",
                  "gfapy.line.edge.gfa2.references.References._initialize_references", "References._refkey_for_s",
                  "gfapy.line.edge.gfa2.to_gfa1.ToGFA1._is_sid1_from", "ToGFA1._segment_role",
                  "gfapy.line.edge.common.from_to.FromTo.from_end/to_end/other_end",
                  "AlignmentType._alignment_type", "gfapy.lastpos.isfirstpos/islastpos/posvalue",
                  "Gfa.add_line", "Connection.connect"],
    "bounds": "one E line between two segments; both orientations symbolic; beg/end of both intervals ANY integers with 0<=beg<=end (unbounded z3 Int), '$' flags on begin and end symbolic ('$' on begin only with begin==end), zero-length segments excluded; after the classification checks the edge is removed and must be gone from every collection",
    "timeout": {"quick": 150, "thorough": 600}, "parts": {"quick": 4, "thorough": 4}},
  "h_e_selfedge": {
    "kind": "K/L", "functions": ["as h_e_classification, sid1 and sid2 the same segment"],
    "bounds": "as h_e_classification with sid1 == sid2", "timeout": {"quick": 150, "thorough": 600},
    "parts": {"quick": 4, "thorough": 4}},
  "h_identical_parallel": {"kind": "L",
    "functions": ["Segment.neighbours/neighbours_L/neighbours_R/containers/contained (de-duplication by line)", "Gfa.add_line", "edge references"],
    "bounds": "1..3 verbatim copies of an anonymous edge (GFA2 dovetail E, GFA2 containment E, GFA1 C line) x 4 orientation pairs: every copy is a distinct edge and appears once in the derived answers",
    "timeout": {"quick": 200, "thorough": 300}},
  "h_lcg_keys": {
    "kind": "L", "functions": ["gfapy.line.edge.gfa1.references.References._initialize_references",
                               "gfapy.line.gap.references.References._refkey_for_s", "FromTo.from_end/to_end",
                               "Segment.neighbours_L/R, containers, contained, dovetails_of_end, gaps_of_end"],
    "bounds": "record kind in {L,C,G} x 4 orientation pairs x {distinct segments, self edge} x {1,2 parallel copies}; every combination explored",
    "timeout": {"quick": 150, "thorough": 300}},
 },
 "scripts": {
  "s_oracle_vs_repo_table": {"entry": "s_oracle_vs_repo_table", "timeout": 120},
 },
}

def _mkpos(v, last):
  return gfapy.LastPos(v) if last else v

def _keys_of(seg, e):
  return sorted(k for k, v in seg._refs.items() for x in v if x is e)

def _gone(g, e, s1, s2):
  """after the edge is removed it is in no collection of either segment (the graph is again the one without it)"""
  g.rm(e)
  for s in (s1, s2):
    if _keys_of(s, e) != []: return False
    if s.edges or s.dovetails or s.containments or s.internals or s.neighbours or s.containers or s.contained: return False
  with NoTracing():
    if nbhd.check(g): return False
  return True

def _e_check(p1, p2, b1, e1, lb1, l1, b2, e2, lb2, l2, selfedge):
  o1 = "+" if p1 else "-"
  o2 = "+" if p2 else "-"
  n2 = "s1" if selfedge else "s2"
  with NoTracing():
    g = gfapy.Gfa(version="gfa2")
    g.add_line("S\ts1\t100\t*")
    g.add_line("S\ts2\t100\t*")
  e = gfapy.line.edge.GFA2({"eid": "e1", "sid1": gfapy.OrientedLine("s1", o1), "sid2": gfapy.OrientedLine(n2, o2),
       "beg1": _mkpos(b1, lb1), "end1": _mkpos(e1, l1), "beg2": _mkpos(b2, lb2), "end2": _mkpos(e2, l2),
       "alignment": gfapy.AlignmentPlaceholder()}, version="gfa2")
  g.add_line(e)
  s1 = g.segment("s1"); s2 = g.segment(n2)
  exp = edgesem.e_class(o1, edgesem.interval_kind(b1, e1, l1), o2, edgesem.interval_kind(b2, e2, l2))
  vp.reached("e", o1, o2, selfedge, lb1, l1, lb2, l2)
  if selfedge:
    if _keys_of(s1, e) != sorted([exp["key1"], exp["key2"]]): return False
  else:
    if _keys_of(s1, e) != [exp["key1"]] or _keys_of(s2, e) != [exp["key2"]]: return False
  kind = exp["kind"]
  if e.is_dovetail() != (kind == "dovetail"): return False
  if e.is_containment() != (kind == "containment"): return False
  if e.is_internal() != (kind == "internal"): return False
  if kind == "internal":
    try:
      e._is_sid1_from()
      return False
    except gfapy.ValueError:
      pass
    return _gone(g, e, s1, s2)
  if e._is_sid1_from() != exp["sid1_is_from"]: return False
  frm, to = (e.sid1, e.sid2) if exp["sid1_is_from"] else (e.sid2, e.sid1)
  if e.from_segment is not frm.line or e.to_segment is not to.line: return False
  if e.from_orient != frm.orient or e.to_orient != to.orient: return False
  if kind == "dovetail":
    fe, te = (exp["end1"], exp["end2"]) if exp["sid1_is_from"] else (exp["end2"], exp["end1"])
    if e.from_end.end_type != fe or e.to_end.end_type != te: return False
    if e.from_end.segment is not frm.line or e.to_end.segment is not to.line: return False
    # other_end: from either end to the other
    oe = e.other_end(gfapy.SegmentEnd(frm.line, fe))
    if not (oe.segment is to.line and oe.end_type == te) and not (frm.line is to.line and fe == te): return False
    if not selfedge:
      if [x for x in s1.dovetails_of_end(exp["end1"]) if x is e] != [e]: return False
      if [x for x in getattr(s1, "neighbours_" + exp["end1"])] != [s2]: return False
      if [x for x in getattr(s2, "neighbours_" + exp["end2"])] != [s1]: return False
      if getattr(s1, "neighbours_" + edgesem_other(exp["end1"])) != []: return False
  else:
    cont, ced = (s1, s2) if exp["sid1_is_from"] else (s2, s1)
    if not selfedge:
      if cont.contained != [ced] or ced.containers != [cont]: return False
      if cont.containers != [] or ced.contained != []: return False
  return _gone(g, e, s1, s2)

def edgesem_other(end):
  return "R" if end == "L" else "L"

def h_e_classification(p1: bool, p2: bool, b1: int, e1: int, lb1: bool, l1: bool, b2: int, e2: int, lb2: bool, l2: bool) -> bool:
  """
  pre: (2 * p1 + p2) % NPART == PART
  pre: 0 <= b1 <= e1 and 0 <= b2 <= e2
  pre: (not lb1 or (l1 and b1 == e1)) and (not lb2 or (l2 and b2 == e2))
  pre: not (l1 and e1 == 0) and not (l2 and e2 == 0)
  post: _ == True
  """
  vp.enter("e")
  return _e_check(p1, p2, b1, e1, lb1, l1, b2, e2, lb2, l2, False)

def h_e_selfedge(p1: bool, p2: bool, b1: int, e1: int, lb1: bool, l1: bool, b2: int, e2: int, lb2: bool, l2: bool) -> bool:
  """
  pre: (2 * p1 + p2) % NPART == PART
  pre: 0 <= b1 <= e1 and 0 <= b2 <= e2
  pre: (not lb1 or (l1 and b1 == e1)) and (not lb2 or (l2 and b2 == e2))
  pre: not (l1 and e1 == 0) and not (l2 and e2 == 0)
  post: _ == True
  """
  vp.enter("eself")
  return _e_check(p1, p2, b1, e1, lb1, l1, b2, e2, lb2, l2, True)

NPART = vp.NPART
PART = vp.PART

KINDS = ["L", "C", "G"]

def h_identical_parallel(kind: int, p1: bool, p2: bool, n: int) -> bool:
  """
  pre: 0 <= kind < 3 and 1 <= n <= 3
  post: _ == True
  """
  vp.enter("ip")
  k = vp.concretize(kind, 0, 2)
  o1 = "+" if p1 else "-"
  o2 = "+" if p2 else "-"
  nn = vp.concretize(n, 1, 3)
  # lines without an identifier may be repeated verbatim: each is a distinct edge
  if k == 0:
    doc = ["S\ta\t100\t*", "S\tb\t100\t*", "S\tc\t100\t*"]
    (b1, e1), (b2, e2) = (("70", "100$") if o1 == "+" else ("0", "30")), (("0", "30") if o2 == "+" else ("70", "100$"))
    line = "E\t*\ta" + o1 + "\tb" + o2 + "\t" + b1 + "\t" + e1 + "\t" + b2 + "\t" + e2 + "\t*"
  elif k == 1:
    doc = ["S\ta\t100\t*", "S\tb\t100\t*", "S\tc\t100\t*"]
    line = "E\t*\ta" + o1 + "\tb" + o2 + "\t10\t40\t0\t100$\t*"
  else:
    doc = ["S\ta\t*", "S\tb\t*", "S\tc\t*"]
    line = "C\ta\t" + o1 + "\tb\t" + o2 + "\t5\t*"
  with NoTracing():
    g = gfapy.Gfa(doc)
  for _ in range(nn):
    g.add_line(line)
  vp.reached("ip", k, o1, o2, nn)
  a, b = g.segment("a"), g.segment("b")
  with NoTracing():
    if nbhd.check(g): return False
  if k == 0:
    if len(a.neighbours) != nn or len(b.neighbours) != nn: return False
    if len(g.dovetails) != nn: return False
  else:
    if len(a.contained) != nn or len(b.containers) != nn: return False
    if not all(x is b for x in a.contained) or not all(x is a for x in b.containers): return False
    if len(g.containments) != nn: return False
  return True

def h_lcg_keys(kind: int, p1: bool, p2: bool, selfedge: bool, twice: bool) -> bool:
  """
  pre: 0 <= kind < 3
  post: _ == True
  """
  vp.enter("lcg")
  k = vp.pick(KINDS, kind)
  o1 = "+" if p1 else "-"
  o2 = "+" if p2 else "-"
  other = "a" if selfedge else "b"
  if k == "G":
    with NoTracing():
      g = gfapy.Gfa(["S\ta\t10\t*", "S\tb\t10\t*", "S\tc\t10\t*"])
    texts = ["G\tg1\ta" + o1 + "\t" + other + o2 + "\t5\t*"]
    if twice: texts.append("G\tg2\ta" + o1 + "\t" + other + o2 + "\t7\t*")
  else:
    with NoTracing():
      g = gfapy.Gfa(["S\ta\t*", "S\tb\t*", "S\tc\t*"])
    ov = "2M" if k == "L" else "0\t*"
    texts = [k + "\ta\t" + o1 + "\t" + other + "\t" + o2 + "\t" + ov]
    if twice:
      # a parallel edge: same oriented pair, different overlap (so it is not the same link)
      texts.append(k + "\ta\t" + o1 + "\t" + other + "\t" + o2 + "\t" + ("3M" if k == "L" else "1\t2M"))
  for t in texts:
    g.add_line(t)
  vp.reached("lcg", k, o1, o2, selfedge, twice)
  with NoTracing():
    bad = nbhd.check(g)
  if bad: return False
  a = g.segment("a"); b = g.segment(other)
  n = len(texts)
  if k == "L":
    ea, eb = edgesem.l_ends(o1, o2)
    if len([x for x in a.dovetails_of_end(ea) if x.to_segment is b or x.from_segment is b]) < n: return False
    for l in g.dovetails:
      if l.from_end.end_type != ea or l.to_end.end_type != eb: return False
      if l.from_end.segment is not a or l.to_end.segment is not b: return False
      oe = l.other_end(gfapy.SegmentEnd(a, ea))
      if not selfedge and (oe.segment is not b or oe.end_type != eb): return False
    if len(g.dovetails) != n or len(g.containments) != 0: return False
    if (b in getattr(a, "neighbours_" + ea)) != True: return False
  elif k == "C":
    # (answers are de-duplicated per edge line, not per segment: parallel edges repeat the segment)
    if not a.contained or not all(x is b for x in a.contained): return False
    if not b.containers or not all(x is a for x in b.containers): return False
    if len(g.containments) != n or len(g.dovetails) != 0: return False
    if len(a.edges_to_contained) != n or len(b.edges_to_containers) != n: return False
  else:
    ea, eb = edgesem.g_ends(o1, o2)
    if len([x for x in a.gaps_of_end(ea)]) < n or len([x for x in b.gaps_of_end(eb)]) < n: return False
    if len(a.gaps) != (2 * n if selfedge else n): return False
  return True


# ---------------------------------------------------------------------------
# oracle validation (native, concrete): the specification oracle must agree
# with the repository's own classification table (its 'at' tags), for every one
# of its E lines, from the perspective of segment 'a'.
# ---------------------------------------------------------------------------
def s_oracle_vs_repo_table():
  import json, os
  path = os.path.join(vp.REPO, "tests", "testdata", "gfa2_edges_classification.gfa")
  names = {"dovetails_L": "dovetail_L", "dovetails_R": "dovetail_R", "internals": "internal",
           "edges_to_containers": "to_container", "edges_to_contained": "to_contained"}
  n = 0; bad = []; samples = []
  for t in open(path):
    t = t.rstrip("\n")
    f = t.split("\t")
    if f[0] != "E": continue
    at = [x[5:] for x in f if x.startswith("at:Z:")][0]
    b1, _ = nbhd._pos(f[4]); e1, l1 = nbhd._pos(f[5]); b2, _ = nbhd._pos(f[6]); e2, l2 = nbhd._pos(f[7])
    c = edgesem.e_class(f[2][-1], edgesem.interval_kind(b1, e1, l1), f[3][-1], edgesem.interval_kind(b2, e2, l2))
    key = c["key1"] if f[2][:-1] == "a" else c["key2"]
    n += 1
    if names[key] != at: bad.append("%s: oracle %s, table %s" % (t, names[key], at))
    elif len(samples) < 3: samples.append({"table_line": t, "oracle": names[key]})
  res = {"obligations": 1, "discharged": 0 if bad else 1, "evaluations": n, "distinct_nontrivial": n,
         "samples": samples, "functions": ["spec.edgesem.e_class (oracle validation against tests/testdata/gfa2_edges_classification.gfa)"],
         "bounds": "every E line of the repository's classification table", "queries": 0, "solver_s": 0.0,
         "errors": ["oracle disagrees with the repository's classification table: " + "; ".join(bad[:5])] if bad else []}
  json.dump(res, open(os.environ["VERIF_OUT"], "w"))
