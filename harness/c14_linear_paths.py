"""C14: linear-path merging spells the right sequence and keeps the rest intact."""
from vlib import vp
from vlib.vp import gfapy, NoTracing
from spec import edgesem as E, linmerge, nbhd
from spec.observe import invariant

NPART = vp.NPART
PART = vp.PART
THOROUGH = not vp.QUICK
_FUNCS = ["LinearPaths.linear_paths/linear_path/__traverse_linear_path", "LinearPaths.merge_linear_paths/merge_linear_path/__create_merged_segment/_add_segment_to_merged/__link_merged",
          "Segment._connectivity", "Segment.end_relations", "gfapy.sequence.rc", "SegmentEnd", "Line.clone", "Line.disconnect", "Gfa.add_line", "Topology.connected_components"]

META = {
 "property": "C14",
 "harnesses": {
  "h_two_links": {"kind": "G", "functions": _FUNCS,
    "bounds": "GFA1 graph on 3 segments with distinct sequences (IUPAC codes included) or without sequences (LN only) and ANY two links (from, to in {a,b,c}: self links, hairpins, parallel and complementary links, 2-cycles; all orientation pairs; overlap 1M, thorough also '*' and 2M): linear_paths equals the oracle chains; after merge_linear_paths one segment per chain with the spelled sequence and LN, outward dovetails re-attached, other lines unchanged, components preserved, reference graph closed and symmetric, second merge is a no-op",
    "timeout": {"quick": 400, "thorough": 900}, "parts": {"quick": 16, "thorough": 16}},
  "h_chain_shapes": {"kind": "G", "functions": _FUNCS,
    "bounds": "chains a-b-c (quick) / a-b-c-d (thorough): every orientation pair at every junction, overlap 0..2, plus one decoration (none, hairpin on the last end, hairpin on the first end, branch at the last end, closing link making a cycle, containment on the middle segment, link to an outside segment e); sequences present or '*'; same assertions as h_two_links",
    "timeout": {"quick": 400, "thorough": 900}, "parts": {"quick": 16, "thorough": 16}},
  "h_gfa2_form": {"kind": "G", "functions": _FUNCS + ["edge gfa2 ToGFA1 accessors (from_segment/overlap setters)"],
    "bounds": "the chain a-b-c written as GFA2 E lines (4 orientation pairs per junction, overlap 1..2): linear_paths equals the oracle chains; merging yields one segment with the spelled sequence",
    "timeout": {"quick": 300, "thorough": 900}, "parts": {"quick": 4, "thorough": 4}},
 },
}

SEQ = {"a": "AACCG", "b": "GSWTA", "c": "TRYKM", "d": "CBDHV", "e": "ACnTA"}        # (IUPAC codes: the complement table matters)
ORI = ["+", "-"]

def _doc(segs, links, seqs=True):
  return ["S\t%s\t%s" % (s, SEQ[s] if seqs else "*") + ("" if seqs else "\tLN:i:5") for s in segs] + \
         ["L\t%s\t%s\t%s\t%s\t%s" % (l[0], l[1], l[2], l[3], ("%dM" % l[4]) if l[4] else "*") for l in links]

def _check(segs, links, extra_lines, seqs, tag):
  links = E.dedup_links(links)
  doc = _doc(segs, links, seqs) + extra_lines
  with NoTracing():
    try:
      g = gfapy.Gfa(doc)
    except gfapy.NotUniqueError:
      return True                               # two spellings of a placeholder-compatible link: not a graph
    comps_before = set(frozenset(str(s.name) for s in c) for c in g.connected_components())
  seq = {s: (SEQ[s] if seqs else None) for s in segs}
  lps = g.linear_paths()
  vp.reached(tag, links)
  with NoTracing():
    if linmerge.check_linear_paths(g, segs, links): return False
  g.merge_linear_paths()
  with NoTracing():
    if linmerge.check_merged(g, segs, seq, links, {s: 5 for s in segs}): return False
    if invariant(g): return False
    if nbhd.check(g): return False
    # components preserved (a chain is replaced by one segment)
    chains = E.linear_chains(segs, links)
    rename = {}
    for s in g.segments:
      n = str(s.name)
      if n not in segs:
        for part in n.split("_"): rename[part] = n
    want = set(frozenset(rename.get(x, x) for x in c) for c in comps_before)
    got = set(frozenset(str(s.name) for s in c) for c in g.connected_components())
    if want != got: return False
    # lines not touching a chain are textually unchanged
    in_chain = set(s for ch, cyc in chains for (s, e) in ch)
    for t in extra_lines:
      f = t.split("\t")
      touches = (f[1] in in_chain or f[3] in in_chain)
      present = any(str(l) == t for l in g.lines)
      if not touches and not present: return False
    t1 = str(g)
  g.merge_linear_paths()
  return str(g) == t1

SEG3 = ["a", "b", "c"]
OVS = [1, 0, 2]
NOV = vp.T(1, 3)

def _link(code):
  c = vp.concretize(code, 0, 36 * 3 - 1)
  f = SEG3[c % 3]; c //= 3
  fo = ORI[c % 2]; c //= 2
  t = SEG3[c % 3]; c //= 3
  to = ORI[c % 2]; c //= 2
  return (f, fo, t, to, OVS[c % 3])

def h_two_links(l1: int, l2: int, seqs: bool) -> bool:
  """
  pre: 0 <= l1 < 36 * NOV and 0 <= l2 < 36 * NOV and l1 <= l2
  pre: (l1 + l2) % NPART == PART
  post: _ == True
  """
  vp.enter("tl")
  links = [_link(l1), _link(l2)]
  return _check(SEG3, links, [], seqs, "tl")

DECOS = ["none", "hairpin_last", "hairpin_first", "branch_last", "cycle", "containment", "outside"]
NJ = vp.T(2, 3)

def h_chain_shapes(j1: int, j2: int, j3: int, k: int, deco: int, seqs: bool) -> bool:
  """
  pre: 0 <= j1 < 4 and 0 <= j2 < 4 and 0 <= j3 < 4 and 0 <= k <= 2 and 0 <= deco < 7
  pre: NJ == 3 or j3 == 0
  pre: THOROUGH or seqs
  pre: (j1 + 4 * j2 + deco) % NPART == PART
  post: _ == True
  """
  vp.enter("cs")
  segs = ["a", "b", "c", "d"][:NJ + 1] + ["e"]
  kk = vp.concretize(k, 0, 2)
  js = [vp.concretize(j, 0, 3) for j in (j1, j2, j3)][:NJ]
  links = []
  for i, j in enumerate(js):
    links.append((segs[i], ORI[j % 2], segs[i + 1], ORI[j // 2], kk))
  last, first = segs[NJ], "a"
  d = DECOS[vp.concretize(deco, 0, 6)]
  extra = []
  # the free ends: of the first segment the end not used by junction 1, of the last the end not used by the last junction
  first_free_o = "-" if links[0][1] == "+" else "+"        # leaving a through its free end = orientation opposite to the one used
  last_free_o = links[-1][3]                               # continuing through the last segment in the same direction
  if d == "hairpin_last": links.append((last, last_free_o, last, E.INV[last_free_o], 1))
  elif d == "hairpin_first": links.append((first, first_free_o, first, E.INV[first_free_o], 1))
  elif d == "branch_last":
    links.append((last, last_free_o, "e", "+", 1)); links.append((last, last_free_o, "e", "-", 2))
  elif d == "cycle": links.append((last, last_free_o, first, E.INV[first_free_o], 1))
  elif d == "containment": extra.append("C\tb\t+\te\t-\t0\t*")
  elif d == "outside": links.append((last, last_free_o, "e", "+", 1))
  return _check(segs, links, extra, seqs, "cs")

def h_gfa2_form(j1: int, j2: int, k: int) -> bool:
  """
  pre: 0 <= j1 < 4 and 0 <= j2 < 4 and 1 <= k <= 2
  pre: j1 % NPART == PART
  post: _ == True
  """
  vp.enter("g2")
  kk = vp.concretize(k, 1, 2)
  segs = ["a", "b", "c"]
  links, elines = [], []
  for i, j in enumerate([vp.concretize(j1, 0, 3), vp.concretize(j2, 0, 3)]):
    f, fo, t, to = segs[i], ORI[j % 2], segs[i + 1], ORI[j // 2]
    links.append((f, fo, t, to, kk))
    (b1, e1, l1), (b2, e2, l2) = E.link_intervals(fo, to, 5, 5, kk, kk)
    pos = lambda v, last: ("%d$" % v) if last else str(v)
    elines.append("E\te%d\t%s%s\t%s%s\t%d\t%s\t%d\t%s\t%dM" % (i, f, fo, t, to, b1, pos(e1, l1), b2, pos(e2, l2), kk))
  doc = ["S\t%s\t5\t%s" % (s, SEQ[s]) for s in segs] + elines
  with NoTracing():
    g = gfapy.Gfa(doc)
  lps = g.linear_paths()
  vp.reached("g2", links)
  with NoTracing():
    if linmerge.check_linear_paths(g, segs, links): return False
  g.merge_linear_paths()
  with NoTracing():
    if linmerge.check_merged(g, segs, dict(SEQ), links, {s: 5 for s in segs}): return False
    if invariant(g): return False
  return True
