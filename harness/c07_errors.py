"""C07: only gfapy.Error exceptions escape, whatever the input.

Messages are NOT stubbed here (META stub False): the message expressions of the
raise statements are part of the subject (some of them raise foreign errors)."""
from vlib import vp
from vlib.vp import gfapy, NoTracing

NPART = vp.NPART
PART = vp.PART
THOROUGH = not vp.QUICK

META = {
 "property": "C07",
 "harnesses": {
  "h_whole_line": {"kind": "L", "stub": False,
    "functions": ["Line.__new__/__init__", "Construction._subclass*", "Segment._subclass", "Creators.add_line", "Gfa.__init__", "Comment/CustomRecord construction", "Line.__str__/validate"],
    "bounds": "every string of length <= 2 (quick) / 3 (thorough) over a 12-character alphabet (record letters S L H # X, tab, space, '*', '+', digit, ':', newline) offered as a line to gfapy.Line, Gfa.add_line and as a whole document to Gfa(text), vlevel 0..3, version None/gfa1/gfa2; followed by str() and validate()",
    "timeout": {"quick": 400, "thorough": 900}, "parts": {"quick": 16, "thorough": 16}},
  "h_field_mutation": {"kind": "L", "stub": False,
    "functions": ["every <datatype>.decode/unsafe_decode/validate_encoded/validate_decoded/encode", "Field._parse_gfa_field/_parse_gfa_tag", "Line.__init__", "Line.get/field_to_s/validate/validate_field/__str__/clone",
                  "LastPos", "Alignment", "CIGAR", "Trace", "NumericArray", "ByteArray", "json"],
    "bounds": "30 (record, focus field) templates (every positional datatype and every tag datatype, incl. whole-tag and tag-name positions) x every string of length <= 1 (quick) / 2 (thorough) over an 18-character alphabet in the focus position x vlevel 0..3: construction, every getter, field_to_s, str, validate, validate_field, clone raise nothing but gfapy.Error",
    "timeout": {"quick": 400, "thorough": 900}, "parts": {"quick": 16, "thorough": 16}},
  "h_document_mutation": {"kind": "G", "stub": False,
    "functions": ["Gfa.__init__/add_line/validate/__str__", "Connection.connect", "*/references._initialize_references", "VirtualToReal", "Multiline", "SameID", "process_line_queue"],
    "bounds": "2 documents (GFA1 incl. paths and ID-tagged links, GFA2 incl. E/F/G/O/U/custom): single-point mutation at EVERY character position (quick: every 3rd) with replacement from an 8-character alphabet (tab, space, '*', '+', ',', digit, letter, '$'), deletion, and insertion of a tab; vlevel 1 and 3: Gfa(text), str, validate, names, segment/edge traversals raise nothing but gfapy.Error",
    "timeout": {"quick": 400, "thorough": 900}, "parts": {"quick": 16, "thorough": 16}},
  "h_api_strings": {"kind": "G", "stub": False,
    "functions": ["Finders.line/segment/try_get_line/try_get_segment", "Destructors.rm", "FieldData.set/get/try_get/delete", "DynamicFields.__getattr__/__setattr__", "Line.validate_field/set_datatype/get_datatype",
                  "Gfa.segment_connected_component/linear_path/multiply (unknown ids)"],
    "bounds": "GFA1 and GFA2 state x 25 API calls taking an identifier, field name or a line mentioning it x every string of length <= 1 (quick) / 2 (thorough) over a 12-character alphabet (existing ids, '*', '', tab, digits) as argument, and 8 (field, value) assignments with string values of length <= 2",
    "timeout": {"quick": 400, "thorough": 900}, "parts": {"quick": 16, "thorough": 16}},
 },
}

LA = ["S", "L", "H", "#", "X", "\t", " ", "*", "+", "1", ":", "\n", "\u00b2"]
NLA = len(LA)
LLEN = vp.T(2, 3)
VERS = [None, "gfa1", "gfa2"]

def _mk(alpha, n, cs, maxn):
  k = vp.concretize(n, 0, maxn)
  idx = [vp.concretize(c, 0, len(alpha) - 1) for c in cs][:k]
  with NoTracing():
    return "".join(alpha[i] for i in idx)

def _only_gfapy(f):
  """run f; True if it returned or raised a gfapy.Error (anything else propagates as a violation)"""
  try:
    f()
  except gfapy.Error:
    pass
  return True

def h_whole_line(n: int, c0: int, c1: int, c2: int, c3: int, vl: int, vi: int, how: int) -> bool:
  """
  pre: 0 <= n <= LLEN and 0 <= vl <= 3 and 0 <= vi < 3 and 0 <= how < 3
  pre: 0 <= c0 < NLA and 0 <= c1 < NLA and 0 <= c2 < NLA and 0 <= c3 < NLA
  pre: (n > 0 or c0 == 0) and (n > 1 or c1 == 0) and (n > 2 or c2 == 0) and (n > 3 or c3 == 0)
  pre: (c0 + c1) % NPART == PART
  post: _ == True
  """
  vp.enter("wl")
  s = _mk(LA, n, (c0, c1, c2, c3), 4)
  level = vp.concretize(vl, 0, 3)
  version = VERS[vp.concretize(vi, 0, 2)]
  h = vp.concretize(how, 0, 2)
  vp.reached("wl", s, level, version, h)
  def run():
    if h == 0:
      l = gfapy.Line(s, vlevel=level, version=version)
      str(l); l.validate()
    elif h == 1:
      g = gfapy.Gfa(vlevel=level, version=version)
      g.add_line(s); g.process_line_queue(); str(g); g.validate()
    else:
      g = gfapy.Gfa(s, vlevel=level, version=version)
      str(g); g.names
  return _only_gfapy(run)

FA = ["a", "+", "-", "*", "1", "0", "$", ",", "M", " ", ":", "A", "\x7f", "é", "i", "{", ".", "e", "\u00b2"]
NFA = len(FA)
FLEN = vp.T(1, 2)
TEMPL = [
  ("S\t{}\t*", "gfa1"), ("S\ta\t{}", "gfa1"), ("S\ta\t*\tLN:i:{}", "gfa1"), ("S\ta\t*\t{}", "gfa1"), ("S\ta\t*\t{}:i:1", "gfa1"),
  ("L\t{}\t+\tb\t-\t*", "gfa1"), ("L\ta\t{}\tb\t-\t*", "gfa1"), ("L\ta\t+\tb\t-\t{}", "gfa1"), ("C\ta\t+\tb\t-\t{}\t*", "gfa1"),
  ("P\t{}\ta+,b-\t*", "gfa1"), ("P\tp\t{}\t*", "gfa1"), ("P\tp\ta+,b-\t{}", "gfa1"), ("P\tp\ta+,b-,a+\t{}", "gfa1"), ("P\tp\ta+,b-,a+\t1M{}", "gfa1"), ("H\tVN:Z:{}", None), ("#{}", None), ("{}\ta\tb", None),
  ("S\t{}\t5\t*", "gfa2"), ("S\ta\t{}\t*", "gfa2"), ("S\ta\t5\t{}", "gfa2"), ("E\t{}\ta+\tb-\t0\t1\t0\t1\t*", "gfa2"), ("E\te\t{}\tb-\t0\t1\t0\t1\t*", "gfa2"),
  ("E\te\ta+\tb-\t{}\t1\t0\t1\t*", "gfa2"), ("E\te\ta+\tb-\t0\t{}\t0\t1\t*", "gfa2"), ("E\te\ta+\tb-\t0\t1\t0\t1\t{}", "gfa2"),
  ("G\tg\ta+\tb-\t{}\t*", "gfa2"), ("G\tg\ta+\tb-\t5\t{}", "gfa2"), ("F\ta\t{}\t0\t1\t0\t1\t*", "gfa2"), ("O\to\t{}", "gfa2"), ("U\tu\t{}", "gfa2"),
  ("S\ta\t5\t*\txx:A:{}", "gfa2"), ("S\ta\t5\t*\txx:f:{}", "gfa2"), ("S\ta\t5\t*\txx:H:{}", "gfa2"), ("S\ta\t5\t*\txx:B:{}", "gfa2"),
  ("S\ta\t5\t*\txx:J:{}", "gfa2"), ("S\ta\t5\t*\txx:Z:{}", "gfa2"), ("S\ta\t5\t*\txx:{}:1", "gfa2"),
]
NT = len(TEMPL)

def h_field_mutation(ti: int, n: int, c0: int, c1: int, c2: int, vl: int) -> bool:
  """
  pre: 0 <= ti < NT and 0 <= n <= FLEN and 0 <= vl <= 3
  pre: 0 <= c0 < NFA and 0 <= c1 < NFA and 0 <= c2 < NFA
  pre: (n > 0 or c0 == 0) and (n > 1 or c1 == 0) and (n > 2 or c2 == 0)
  pre: (ti + c0) % NPART == PART
  post: _ == True
  """
  vp.enter("fm")
  tmpl, version = TEMPL[vp.concretize(ti, 0, NT - 1)]
  s = _mk(FA, n, (c0, c1, c2), 3)
  level = vp.concretize(vl, 0, 3)
  text = tmpl.replace("{}", s)
  vp.reached("fm", ti, s, level)
  try:
    l = gfapy.Line(text, vlevel=level, version=version)
  except gfapy.Error:
    return True
  for f in list(l.positional_fieldnames) + list(l.tagnames):
    _only_gfapy(lambda: l.get(f))
    _only_gfapy(lambda: l.field_to_s(f))
    _only_gfapy(lambda: l.validate_field(f))
    _only_gfapy(lambda: l.get_datatype(f))
  _only_gfapy(lambda: str(l))
  _only_gfapy(lambda: l.validate())
  _only_gfapy(lambda: str(l.clone()))
  _only_gfapy(lambda: l.to_list())
  _only_gfapy(lambda: l.__repr__())
  _only_gfapy(lambda: l == l.clone())
  # hash(line): the builtin raises TypeError unless __hash__ returns an int (called directly: CrossHair models hash())
  try:
    hv = l.__hash__()
    if not isinstance(hv, int): return False
  except gfapy.Error:
    pass
  # the same text inside a Gfa that defines the segments it may name (reference initialisation, traversals)
  def connect():
    g = gfapy.Gfa(vlevel=level, version=version)
    for t in (["S\ta\t*", "S\tb\t*"] if version == "gfa1" else (["S\ta\t5\t*", "S\tb\t5\t*"] if version == "gfa2" else [])):
      if not text.startswith("S\t"): g.add_line(t)
    g.add_line(text)
    g.process_line_queue()
    str(g); g.validate(); g.names
    for s in g.segments: s.dovetails; s.neighbours
    g.connected_components()
  _only_gfapy(connect)
  return True

MDOCS = [
  "H\tVN:Z:1.0\nS\ta\tACGT\tLN:i:4\nS\tb\t*\nL\ta\t+\tb\t-\t2M\tID:Z:l1\nC\ta\t+\tb\t-\t1\t*\nP\tp\ta+,b-\t2M\n# c",
  "S\ta\t9\t*\nS\tb\t9\t*\nE\te\ta+\tb-\t5\t9$\t5\t9$\t2M1I\nG\tg\ta+\tb-\t5\t*\nF\ta\tr+\t0\t4\t0\t4$\t*\nO\to\ta+ b-\nU\tu\ta e o\nX\tc\td",
]
REPL = ["\t", " ", "*", "+", ",", "7", "x", "$"]
STRIDE = vp.T(3, 1)
NPOS = max(len(d) for d in MDOCS)

def h_document_mutation(di: int, pos: int, kind: int, ri: int, vl: bool) -> bool:
  """
  pre: 0 <= di < 2 and 0 <= pos < NPOS and 0 <= kind < 3 and 0 <= ri < 8
  pre: pos % STRIDE == 0
  pre: kind == 0 or ri == 0
  pre: pos % NPART == PART
  post: _ == True
  """
  vp.enter("dm")
  doc = MDOCS[vp.concretize(di, 0, 1)]
  p = vp.concretize(pos, 0, NPOS - 1)
  if p >= len(doc): return True
  k = vp.concretize(kind, 0, 2)
  r = REPL[vp.concretize(ri, 0, 7)]
  with NoTracing():
    if k == 0: text = doc[:p] + r + doc[p + 1:]
    elif k == 1: text = doc[:p] + doc[p + 1:]
    else: text = doc[:p] + "\t" + doc[p:]
  level = 3 if vl else 1
  vp.reached("dm", di, p, k, r, level)
  def run():
    g = gfapy.Gfa(text, vlevel=level)
    str(g); g.validate(); g.names
    for s in g.segments:
      s.dovetails; s.neighbours; s.containments
    for l in g.lines:
      l.validate()
    g.connected_components()
  return _only_gfapy(run)

AA = ["a", "b", "p", "e", "*", "", "\t", "1", "+", " ", "x", "L", "v"]
NAA = len(AA)
ADOCS = [["S\ta\t*", "S\tb\t*", "L\ta\t+\tb\t-\t*", "P\tp\ta+,b-\t*"],
         ["S\ta\t9\t*", "S\tb\t9\t*", "E\te\ta+\tb-\t5\t9$\t5\t9$\t*", "O\tp\ta+ b-", "U\tu\ta e",
          "U\tv\ta w", "U\tw\tb v"]]          # (two sets listing each other)
NCALL = 29
ALEN = vp.T(1, 2)

def h_api_strings(di: bool, call: int, n: int, c0: int, c1: int) -> bool:
  """
  pre: 0 <= call < NCALL and 0 <= n <= ALEN and 0 <= c0 < NAA and 0 <= c1 < NAA
  pre: (n > 0 or c0 == 0) and (n > 1 or c1 == 0)
  pre: (call + c0) % NPART == PART
  post: _ == True
  """
  vp.enter("api")
  doc = ADOCS[1 if di else 0]
  s = _mk(AA, n, (c0, c1), 2)
  c = vp.concretize(call, 0, NCALL - 1)
  with NoTracing():
    g = gfapy.Gfa(list(doc), vlevel=3 if c % 2 else 1)
  seg = g.segment("a")
  vp.reached("api", di, c, s)
  calls = [
    lambda: g.line(s), lambda: g.segment(s), lambda: g.try_get_line(s), lambda: g.try_get_segment(s), lambda: g.rm(s),
    lambda: seg.get(s), lambda: seg.try_get(s), lambda: seg.set(s, "v"), lambda: seg.set(s, 5), lambda: seg.delete(s),
    lambda: seg.validate_field(s), lambda: seg.get_datatype(s), lambda: seg.set_datatype(s, "Z"), lambda: seg.set_datatype("xx", s),
    lambda: g.segment_connected_component(s) if g.segment(s) else None, lambda: g.linear_path(s) if g.segment(s) else None,
    lambda: seg.set("xx", s), lambda: seg.set("sequence", s), lambda: (seg.set("xx", s), str(seg)), lambda: (seg.set("sequence", s), seg.validate()),
    lambda: g.add_line(s), lambda: g.select({"name": s}),
    lambda: (g.add_line("P\tq\t" + s + "+\t*") if not di else g.add_line("O\tq\t" + s + "+"), str(g), g.validate()),
    lambda: (g.add_line("L\ta\t+\t" + s + "\t+\t*") if not di else g.add_line("E\t*\ta+\t" + s + "+\t0\t1\t0\t1\t*"), str(g)),
    lambda: (g.add_line("C\t" + s + "\t+\ta\t+\t0\t*") if not di else g.add_line("U\t" + s + "\ta b"), str(g)),
    lambda: (gfapy.OrientedLine(s), gfapy.OrientedLine(s).validate(), str(gfapy.OrientedLine(s)), gfapy.OrientedLine(s).inverted()),
    lambda: (gfapy.SegmentEnd(s), gfapy.SegmentEnd(s).validate(), str(gfapy.SegmentEnd(s)), gfapy.SegmentEnd(s).inverted()),
    lambda: [x == gfapy.Line("E\t*\ta+\tb-\t0\t1\t0\t1\t" + (s if s else "1"), version="gfa2") for x in
             (gfapy.Line("E\t*\ta+\tb-\t0\t1\t0\t1\t1M", version="gfa2"), gfapy.Line("E\t*\ta+\tb-\t0\t1\t0\t1\t1,2", version="gfa2"))],
    lambda: [x.diff(gfapy.Line("L\ta\t+\tb\t-\t" + (s if s else "1M"), version="gfa1")) for x in
             (gfapy.Line("L\ta\t+\tb\t-\t1M"), gfapy.Line("L\ta\t+\tb\t-\t*"))],
  ]
  return _only_gfapy(calls[c])
