"""C15: segment multiplication makes faithful copies and splits the counts."""
from vlib import vp
from vlib.vp import gfapy, NoTracing
from spec.observe import invariant, canon_text, line_text
from spec import nbhd

NPART = vp.NPART
PART = vp.PART
THOROUGH = not vp.QUICK

META = {
 "property": "C15",
 "harnesses": {
  "h_auto_select": {"kind": "K", "functions": ["Multiplication._auto_select_distribute_end"],
    "bounds": "ANY integers factor >= 2, bsize >= 0, esize >= 0 (unbounded z3 Int), both policies: the chosen end follows the documented rule (an end with exactly factor links first (R before L); with 'equal' nothing else; otherwise never an end with fewer than 2 links, and the end whose link count is closest from above to the factor)",
    "timeout": {"quick": 120, "thorough": 300}, "twin": False},
  "h_divide_counts": {"kind": "K", "functions": ["Multiplication.__divide_segment_and_connection_counts/__divide_counts"],
    "bounds": "segment with RC, KC = ANY non-negative integers (unbounded z3 Int), factor 2..6: counts become count // factor, other tags untouched",
    "timeout": {"quick": 120, "thorough": 300}, "twin": False},
  "h_link_hash": {"kind": "L", "functions": ["gfapy.line.edge.link.equivalence.Equivalence.__hash__"],
    "bounds": "every link of the 8 neighbourhood shapes and its complement: __hash__ returns an integer (CrossHair's set model does not call it, so the set membership inside multiply cannot expose a broken hash)",
    "timeout": {"quick": 200, "thorough": 300}},
  "h_multiply": {"kind": "G",
    "functions": ["Multiplication.multiply/_compute_copy_names/__divide_segment_and_connection_counts/__clone_segment_and_connections/_distribute_links/_select_distribute_end",
                  "Line.clone", "Connection.connect", "Link.__hash__", "Gfa.rm"],
    "bounds": "segment X (sequence, RC count 7 or none with edge count 5 (quick); thorough adds (RC, edge count) in {(0,0), (7,5), (99,98)}, custom tag) with a neighbourhood chosen from 11 shapes (incl. ID-tagged edges, textually identical parallel containments, two self-containments whose contents become equal after division) (1-3 links on R, links on both ends, parallel links, self link, hairpin, containments either way, names already ending in *2) x factor -1..4 x policy in {None, off, auto, equal, L, R} x copy names given or automatic; statement-derived expectations + reference-graph invariant + neighbourhood oracle",
    "timeout": {"quick": 400, "thorough": 900}, "parts": {"quick": 16, "thorough": 16}},
 },
}

def h_auto_select(factor: int, bsize: int, esize: int, equal_only: bool) -> bool:
  """
  pre: factor >= 2 and bsize >= 0 and esize >= 0
  post: _ == True
  """
  vp.enter("as")
  r = gfapy.Gfa._auto_select_distribute_end(factor, bsize, esize, equal_only)
  if esize == factor: return r == "R"
  if bsize == factor: return r == "L"
  if equal_only: return r is None
  # never distribute an end with fewer than two links
  if r == "R" and esize < 2: return False
  if r == "L" and bsize < 2: return False
  if esize < 2 and bsize < 2: return r is None
  if r is None: return False
  # prefer an end with more links than copies (all links survive) over one with fewer; among ends of the same
  # kind the one closest to the factor
  def cost(n): return (0, n - factor) if n > factor else (1, factor - n)
  cands = [("L", bsize), ("R", esize)]
  cands = [(e, n) for e, n in cands if n >= 2]
  if len(cands) == 1: return r == cands[0][0]
  return True

SHAPES = [
  # (segments, lines touching X, other lines)
  ("one_R", ["L\tX\t+\ta\t+\t2M\tRC:i:{e}"]),
  ("two_R", ["L\tX\t+\ta\t+\t2M\tRC:i:{e}", "L\tX\t+\tb\t-\t1M\tKC:i:7"]),
  ("three_R_one_L", ["L\tX\t+\ta\t+\t2M\tRC:i:{e}", "L\tX\t+\tb\t-\t1M", "L\tc\t+\tX\t-\t*", "L\ta\t-\tX\t+\t3M\tFC:i:9"]),
  ("both_ends", ["L\ta\t+\tX\t+\t2M\tRC:i:{e}", "L\tb\t+\tX\t+\t1M", "L\tX\t+\tc\t+\t*", "L\tX\t+\ta\t-\t2M"]),
  ("parallel", ["L\tX\t+\ta\t+\t2M\tRC:i:{e}", "L\tX\t+\ta\t+\t3M", "L\tb\t-\tX\t+\t1M"]),
  ("self_link", ["L\tX\t+\tX\t+\t1M\tRC:i:{e}", "L\tX\t+\ta\t+\t2M"]),
  ("hairpin", ["L\tX\t+\tX\t-\t1M\tRC:i:{e}", "L\tb\t+\tX\t+\t2M"]),
  ("containments", ["C\tX\t+\ta\t-\t1\t2M\tRC:i:{e}", "C\tb\t+\tX\t+\t0\t*", "L\tX\t-\tc\t+\t1M"]),
  ("self_containments", ["C\tX\t+\tX\t-\t0\t3M\tKC:i:4", "C\tX\t+\tX\t-\t0\t3M\tKC:i:2", "L\tX\t+\ta\t+\t2M\tRC:i:{e}"]),
  ("identical_parallel", ["C\tX\t+\ta\t+\t0\t3M", "C\tX\t+\ta\t+\t0\t3M", "C\tb\t-\tX\t+\t1\t*", "C\tb\t-\tX\t+\t1\t*", "L\tX\t+\tb\t+\t1M\tRC:i:{e}"]),
  ("named_edges", ["L\tX\t+\ta\t+\t2M\tID:Z:l9\tRC:i:{e}", "C\tb\t+\tX\t+\t0\t*\tID:Z:7", "L\tb\t-\tX\t+\t1M"]),
]
NSH = len(SHAPES)
POLICIES = [None, "off", "auto", "equal", "L", "R"]
REST = ["S\ta\tACGT", "S\tb\tGGTT", "S\tc\t*", "L\ta\t+\tb\t+\t1M", "C\tc\t+\tb\t-\t0\t*", "P\tp\ta+,b+\t1M"]

def _edges_of(g, name):
  """written edges touching segment `name`, with that name replaced by '@' and counts kept"""
  out = []
  for l in g.dovetails + g.containments:
    f = str(l).split("\t")
    if f[1] == name or f[3] == name:
      f = [x for x in f if not x.startswith("ID:Z:")]      # every copy of an identified edge gets its own identifier
      f[1] = "@" if f[1] == name else f[1]
      f[3] = "@" if f[3] == name else f[3]
      out.append(canon_text("\t".join(f)))
  return sorted(out)

RCS = [0, 1, 7, 50, 99]
ERCS = [0, 5, 98]

def h_divide_counts(rc: int, kc: int, factor: int) -> bool:
  """
  pre: rc >= 0 and kc >= 0 and 2 <= factor <= 6
  post: _ == True
  """
  vp.enter("dc")
  k = vp.concretize(factor, 2, 6)
  s = gfapy.line.segment.GFA1({"name": "X", "sequence": gfapy.Placeholder(), "RC": rc, "KC": kc, "xx": 5}, version="gfa1")
  s._datatype["xx"] = "i"
  g = gfapy.Gfa(version="gfa1")
  s.connect(g)
  g._Multiplication__divide_segment_and_connection_counts(s, k)
  return s.RC == rc // k and s.KC == kc // k and s.get("xx") == 5 and s.get("FC") is None

def h_link_hash(si: int) -> bool:
  """
  pre: 0 <= si < NSH
  post: _ == True
  """
  vp.enter("lh")
  shape, xlines = SHAPES[vp.concretize(si, 0, NSH - 1)]
  doc = ["S\tX\tAACCG"] + [t.replace("{e}", "5") for t in xlines] + REST
  with NoTracing():
    g = gfapy.Gfa(doc)
    links = list(g.dovetails)
  vp.reached("lh", shape)
  for e in links:
    # CrossHair models set membership without calling __hash__ (multiply puts circular links into a set):
    # the method itself must return an integer, equal for a link and its complement
    with NoTracing():
      # cut: executed untraced -- CrossHair's model of hash() on strings does not exhaust (realisation loop)
      c = e.complement()
      h1 = e.__hash__()
      h2 = c.__hash__()
      if type(h1) is not int or type(h2) is not int or h1 != h2: return False
  return True

def h_multiply(si: int, factor: int, pi: int, named: bool, star: bool, rci: int, erci: int) -> bool:
  """
  pre: 0 <= si < NSH and -1 <= factor <= 4 and 0 <= pi < 6
  pre: -1 <= rci < 5 and 0 <= erci < 3
  pre: ((rci == 2 or rci == -1) and erci == 1) or (THOROUGH and rci % 2 == 0 and erci == (rci // 2) % 3)
  pre: (si * 6 + pi) % NPART == PART
  post: _ == True
  """
  vp.enter("mu")
  rcx = vp.concretize(rci, -1, 4)
  rc = RCS[rcx] if rcx >= 0 else None          # None: the segment itself carries no counts (only its edges do)
  erc = ERCS[vp.concretize(erci, 0, 2)]
  shape, xlines = SHAPES[vp.concretize(si, 0, NSH - 1)]
  k = vp.concretize(factor, -1, 4)
  policy = POLICIES[vp.concretize(pi, 0, 5)]
  X = "X*2" if star else "X"
  # counts travel through the written lines: bounded to 2 digits (DESIGN 2.4)
  doc = ["S\t" + X + "\tAACCG" + (("\tRC:i:" + str(rc) + "\tKC:i:50") if rc is not None else "") + "\txx:Z:keep"] + \
        [t.replace("{e}", str(erc)).replace("\tX\t", "\t" + X + "\t") for t in xlines] + REST
  with NoTracing():
    g = gfapy.Gfa(doc)                       # (parsing: C01/C04; the multiplication runs traced)
    before_names = list(g.names)
    before_rest = sorted(canon_text(line_text(l)) for l in g.lines
                         if not (l.record_type == "S" and l.name == X) and
                         not (l.record_type in "LC" and (l.from_name == X or l.to_name == X)))
    x_edges_before = _edges_of(g, X)
    seq_before = str(g.segment(X).sequence)
  copy_names = ["cp%d" % i for i in range(max(k - 1, 0))] if named else None
  kwargs = {}
  if policy is not None: kwargs["distribute"] = policy
  if copy_names is not None: kwargs["copy_names"] = copy_names
  try:
    g.multiply(X, k, **kwargs)
  except gfapy.ArgumentError:
    return k < 0
  vp.reached("mu", shape, k, policy, named, star)
  if k < 0: return False
  with NoTracing():
    if invariant(g): return False
    if nbhd.check(g): return False
    if len(g.names) != len(set(g.names)): return False        # identifiers stay pairwise distinct
    rest_after = sorted(canon_text(line_text(l)) for l in g.lines
                        if not (l.record_type == "S" and (l.name == X or l.name not in before_names)) and
                        not (l.record_type in "LC" and any(n == X or n not in before_names for n in (l.from_name, l.to_name))))
    if k == 0:
      # the segment is removed (with its documented dependants), nothing else
      if g.segment(X) is not None: return False
      return [t for t in rest_after if "\tp\t" not in t] == [t for t in before_rest if "\tp\t" not in t]
    if rest_after != before_rest: return False            # the rest of the graph is untouched
    if k == 1:
      return sorted(g.names) == sorted(before_names) and _edges_of(g, X) == x_edges_before and \
             (rc is None or g.segment(X).RC == rc)
    # k >= 2
    new = [n for n in g.segment_names if n not in before_names]
    if len(new) != k - 1 or len(set(new)) != k - 1: return False
    if named and sorted(new) != sorted(copy_names): return False
    copies = [X] + new
    def div(text):
      """edge text with its counts divided by k"""
      f = text.split("\t")
      return "\t".join((x[:5] + str(int(x[5:]) // k)) if x[:5] in ("RC:i:", "KC:i:", "FC:i:") else x for x in f)
    want_edges = sorted(canon_text(div(t)) for t in x_edges_before)
    for c in copies:
      s = g.segment(c)
      if str(s.sequence) != seq_before: return False
      if rc is not None and (s.RC != rc // k or s.KC != 50 // k): return False
      if rc is None and (s.RC is not None or s.KC is not None): return False
      if s.get("xx") != "keep": return False
    dist_end = None
    if policy in ("L", "R"): dist_end = policy
    elif policy in ("auto", "equal"):
      xs = [l for l in doc[1:] if l.split("\t")[0] == "L" and X in (l.split("\t")[1], l.split("\t")[3])]
      def ends(t):
        f = t.split("\t"); out = []
        if f[1] == X: out.append("R" if f[2] == "+" else "L")
        if f[3] == X: out.append("L" if f[4] == "+" else "R")
        return out
      bs = sum(e == "L" for t in xs for e in ends(t)); es = sum(e == "R" for t in xs for e in ends(t))
      dist_end = gfapy.Gfa._auto_select_distribute_end(k, bs, es, policy == "equal")
    if dist_end is None:
      # faithful copies: every copy carries a copy of every dovetail and containment of the original
      for c in copies:
        got = _edges_of(g, c)
        # a self link of the original is a self link of the copy: in '@' form both read the same
        if got != want_edges: return False
      return True
    # with distribution: on the distributed end the links are shared out, the other end is copied
    def on_end(t, end):
      f = t.split("\t")
      if f[0] != "L": return False
      a = f[1] == "@" and ("R" if f[2] == "+" else "L") == end
      b = f[3] == "@" and ("L" if f[4] == "+" else "R") == end
      return a or b
    want_other = sorted(t for t in want_edges if not on_end(t, dist_end))
    want_dist = sorted(t for t in want_edges if on_end(t, dist_end))
    union = []
    for c in copies:
      got = _edges_of(g, c)
      if sorted(t for t in got if not on_end(t, dist_end)) != want_other: return False
      mine = [t for t in got if on_end(t, dist_end)]
      for t in mine:
        if t not in want_dist: return False               # no link is invented
      union += mine
    # every former neighbour stays linked to at least one copy
    return set(union) == set(want_dist)
  return True
