"""C08: a failed mutation leaves the Gfa unchanged."""
from vlib import vp
from vlib.vp import gfapy, NoTracing
from harness import histlib as H
from spec.observe import diff_obs

NPART = vp.NPART
PART = vp.PART
_FUNCS = ["Creators.add_line/__add_line_GFA1/__add_line_GFA2/__add_line_unknown_version/process_line_queue",
          "Connection.connect (duplicate search before registration)", "SameID._process_not_unique", "Multiline._merge/add",
          "FieldData._set_existing_field", "Destructors.rm", "Line.__init__ (field parsing)", "link References._process_not_unique"]

META = {
 "property": "C08",
 "harnesses": {
  "h_fail_gfa2": {"kind": "G", "functions": _FUNCS,
    "bounds": "GFA2 state (header TS/custom tag, S, E x3, G, F, O, U with tag, nested U) after 0/1 successful prefix step (3 choices quick / 5 thorough); then every pair (f1, f2) of calls from a catalogue of 30 mostly failing mutations (duplicate id same/other type, U/O named like a segment/edge/other group kind, GFA1 line, GFA1 segment syntax, wrong VN, half-conflicting header, malformed fields, contradictory group tags, duplicate gap/edge with undefined segments, illegal edit of a reference field, rename onto an id in use, rename to an invalid identifier, rm of an unknown id); full observation compared around every call that raised",
    "timeout": {"quick": 400, "thorough": 900}, "parts": {"quick": 16, "thorough": 16}},
  "h_fail_gfa1": {"kind": "G", "functions": _FUNCS,
    "bounds": "GFA1 state (header VN/TS, S x3, L x3 incl. ID-tagged, C, P x2) after 0/1 successful prefix step; every pair of calls from a catalogue of 24 mostly failing mutations",
    "timeout": {"quick": 400, "thorough": 900}, "parts": {"quick": 16, "thorough": 16}},
  "h_fail_header_tags": {"kind": "L/G", "functions": ["Multiline._merge/_check_single_definition/_check_datatype/add", "FieldArray._vpush", "Creators.__add_line_GFA1/__add_line_GFA2/__add_line_unknown_version"],
    "bounds": "a Gfa (version gfa1/gfa2/undecided, vlevel 0..3) whose header holds aa once or twice (FieldArray) with datatype i; then a header line with two tags, one new (bb) and one aa with datatype i/Z/f/J or a malformed value, in both orders: if it raises, nothing of it is merged",
    "timeout": {"quick": 200, "thorough": 400}},
  "h_fail_edit": {"kind": "L/G", "functions": ["FieldData.set/_set_existing_field", "Field._validate_gfa_field", "Line.validate_field"],
    "bounds": "GFA1 and GFA2 base states read at vlevel 3; one of 9 (line, field) targets (positional fields and tags of S, L, E, G, F, header) assigned one of 7 malformed or valid strings: if the assignment raises, the Gfa is unchanged and can still be written",
    "timeout": {"quick": 200, "thorough": 400}},
  "h_fail_header_ts": {"kind": "L/G", "functions": ["Multiline._merge/_check_single_definition/add", "Creators.__add_line_GFA2"],
    "bounds": "header line 'H ab:i:1 TS:i:<n>' merged into a header holding TS:i:5 or TS:i:0, n chosen from {0,4,5,6,55,500}; also as second line 'H TS:i:<n> cd:Z:x'",
    "timeout": {"quick": 200, "thorough": 400}},
  "h_fail_unknown_version": {"kind": "G", "functions": ["Creators.__add_line_unknown_version", "Creators.process_line_queue", "Gfa._validate_version"],
    "bounds": "Gfa of undecided version holding 0..2 queued lines (L, P, custom) x 12 next lines (unsupported/conflicting VN, segment of either syntax, E, malformed lines)",
    "timeout": {"quick": 200, "thorough": 400}},
 },
}

BASE2 = ["H\tTS:i:5\tzz:Z:a"] + H.BASES["gfa2"][:-2] + ["U\tu1\ts1 e2\txx:i:2", "U\tu2\tu1 o1"]
BASE1 = ["H\tTS:i:5\tVN:Z:1.0"] + H.BASES["gfa1"]

PRE2 = [None, ("add", "S\ts4\t10\t*"), ("add", "O\to2\to1- s9+"), ("rm", "e2"), ("rm", "s3")]
PRE1 = [None, ("add", "S\ts4\t*"), ("add", "L\ts4\t+\ts1\t-\t*"), ("rm", "p1"), ("rm", "s3")]

CAT2 = [("add", "S\ts1\t10\t*"), ("add", "E\ts1\ts1+\ts2+\t5\t10$\t0\t5\t*"), ("add", "U\ts1\ts2 s3"), ("add", "O\ts2\ts1+ s2+"),
        ("add", "L\ts1\t+\ts2\t+\t*"), ("add", "S\ts9\t*"), ("add", "H\tVN:Z:1.0"), ("add", "H\tab:i:1\tTS:i:6"),
        ("add", "E\te9\ts1+\ts2+\t5\tx\t0\t5\t*"), ("add", "U\tu1\ts3\txx:i:1\tyy:i:3"), ("add", "G\tg1\ts1+\ts2+\t1\t*"),
        ("add", "E\te1\ts7+\ts8+\t0\t1\t0\t1\t*"), ("add", "F\ts1\tr1+\t0\t5\t0\tz\t*"), ("add", "U\te1\ts1"), ("add", "O\tu1\ts1+"),
        ("add", "U\to1\ts2"), ("add", "E\tg1\ts1+\ts2+\t0\t1\t0\t1\t*"), ("add", "S\ts5\t10\t*\tLN:i:x"), ("add", "E\te9\ts1+\ts2+\t5\t3\t0\t5\t*"),
        ("add", "O\to1\ts7+ s8+\txx:i:1\txx:i:2"), ("add", "U\tu1\ts7 s8\txx:i:9"), ("add", "H\tzz:Z:b\tVN:Z:9"),
        ("rename", "s1", "s2"), ("rename", "e1", "g1"), ("rename", "u1", "s3"), ("rm", "nope"), ("rm", "*"),
        ("setref", "e1", "sid1"), ("setref", "o1", "items"), ("add", "S\ts6\t10\t*"),
        ("rename", "s1", "a b"), ("rename", "e1", ""), ("rename", "o1", "x y")]
CAT1 = [("add", "S\ts1\t*"), ("add", "P\ts1\ts1+,s2+\t*"), ("add", "L\ts1\t+\ts2\t+\t2M"), ("add", "L\ts1\t+\ts2\t+\t*"),
        ("add", "E\te1\ts1+\ts2+\t0\t1\t0\t1\t*"), ("add", "H\tVN:Z:2.0"), ("add", "S\ts9\t10\t*"), ("add", "L\ts1\t+\ts2\tx\t*"),
        ("add", "X\t1\t2"), ("add", "H\tab:i:1\tTS:i:6"), ("add", "P\tp1\ts2+,s3+\t*"), ("add", "C\ts1\t+\ts2\t+\t-1\t*"),
        ("add", "S\ts5\tACGT\tLN:i:7"), ("add", "P\tp8\ts1+,s2+\t1M,2M,3M"), ("add", "L\ts2\t+\ts3\t+\t1M\tID:Z:s1"),
        ("add", "P\tp7\ts7+,s8+\t*\txx:i:1\txx:i:2"), ("add", "L\ts7\t+\ts8\t+\t*\tID:Z:p1"), ("add", "C\ts7\t+\ts8\t+\t0\t*\tID:Z:s2"),
        ("rename", "s1", "s2"), ("rename", "p1", "s3"), ("rm", "nope"), ("setref", "p1", "segment_names"),
        ("setref", "s1", "name"), ("add", "S\ts6\t*"), ("rename", "s1", "*x"), ("rename", "p1", "a b"), ("rename", "s2", "a+,b")]

def _obs(g):
  o = H.full_observation(g)
  o["version_guess"] = g._version_guess
  o["header_line"] = str(g.header)
  return o

def _call(g, op):
  """-> exception or None"""
  kind = op[0]
  try:
    if kind == "add":
      g.add_line(op[1])
    elif kind == "rm":
      g.rm(op[1])
    elif kind == "rename":
      l = g.line(op[1])
      if l is None: return None
      l.name = op[2]
    elif kind == "setref":
      l = g.line(op[1])
      if l is None: return None
      l.set(op[2], "s3" if op[2] != "items" and op[2] != "segment_names" else [])
  except gfapy.Error as e:
    return e
  return None

def _run(base_lines, pre_tab, cat, pre, f1, f2, tag):
  with NoTracing():
    g = gfapy.Gfa(list(base_lines))
  p = vp.pick(pre_tab, pre)
  if p is not None:
    if _call(g, p) is not None: return True
  for f in (f1, f2):
    op = vp.pick(cat, f)
    with NoTracing():
      before = _obs(g)
    err = _call(g, op)
    if err is not None:
      vp.reached(tag, pre, op[1], type(err).__name__)
      with NoTracing():
        d = diff_obs(_obs(g), before)
        if d:
          if vp.kf_active("KF-C08-clash-inside-reference-init") and isinstance(err, gfapy.NotUniqueError) and \
              op[0] == "add" and _mentions_id_of_other_type(before, op[1]):
            return True
          return False
  return True

def _mentions_id_of_other_type(before, text):
  """the refused line refers (as a segment) to an identifier that a non-segment line holds"""
  from spec.textmodel import mentions
  nonseg = set(before["names"]) - set(before["segment_names"])
  return any(m in nonseg for m in mentions(text))

NPRE = vp.T(3, 5)
NTS = vp.T(12, 40)
N2 = len(CAT2)
N1 = len(CAT1)

def h_fail_gfa2(pre: int, f1: int, f2: int) -> bool:
  """
  pre: 0 <= pre < NPRE and 0 <= f1 < N2 and 0 <= f2 < N2
  pre: (f1 + f2) % NPART == PART
  post: _ == True
  """
  vp.enter("f2")
  return _run(BASE2, PRE2, CAT2, pre, f1, f2, "f2")

def h_fail_gfa1(pre: int, f1: int, f2: int) -> bool:
  """
  pre: 0 <= pre < NPRE and 0 <= f1 < N1 and 0 <= f2 < N1
  pre: (f1 + f2) % NPART == PART
  post: _ == True
  """
  vp.enter("f1")
  return _run(BASE1, PRE1, CAT1, pre, f1, f2, "f1")

def h_fail_header_ts(n: int, second: bool, zero: bool) -> bool:
  """
  pre: 0 <= n <= 5
  post: _ == True
  """
  vp.enter("ts")
  with NoTracing():
    # (zero: the stored value is 0, a value that is false in a boolean context)
    g = gfapy.Gfa([BASE2[0].replace("TS:i:5", "TS:i:0")] + BASE2[1:] if zero else list(BASE2))
    before = _obs(g)
  n = vp.pick([0, 4, 5, 6, 55, 500], n)
  text = ("H\tTS:i:" + str(n) + "\tcd:Z:x") if second else ("H\tab:i:1\tTS:i:" + str(n))
  try:
    g.add_line(text)
  except gfapy.Error:
    vp.reached("ts", second)
    with NoTracing():
      return not diff_obs(_obs(g), before)
  # accepted: only when the value agrees with the stored one
  return n == (0 if zero else 5)

QUEUED = [[], ["L\ta\t+\tb\t+\t*"], ["P\tp\ta+,b+\t*"], ["X\t1\t2"], ["L\ta\t+\tb\t+\t*", "X\t1\t2"], ["#\tc", "L\ta\t+\tb\t+\t*"]]
NEXT = ["H\tVN:Z:3.0", "H\tVN:Z:2.0", "H\tVN:Z:1.0", "S\ta\t10\t*", "S\ta\t*", "E\te\ta+\tb+\t0\t1\t0\t1\t*", "S\ta", "L\ta\t+\tb",
        "H\tVN:i:1", "S\ta\t*\tLN:i:x", "H\txx:Z:1\tVN:Z:7", "E\te\ta+\tb+\t0\tx\t0\t1\t*"]

def h_fail_unknown_version(q: int, nx: int) -> bool:
  """
  pre: 0 <= q < 6 and 0 <= nx < 12
  post: _ == True
  """
  vp.enter("uv")
  g = gfapy.Gfa()
  for t in vp.pick(QUEUED, q):
    g.add_line(t)
  with NoTracing():
    before = _obs(g)
  text = vp.pick(NEXT, nx)
  try:
    g.add_line(text)
  except gfapy.Error as e:
    vp.reached("uv", q, text, type(e).__name__)
    with NoTracing():
      if vp.kf_active("KF-C08-version-deciding-line") and len(before["queue"]) > 0 and \
          isinstance(e, gfapy.VersionError) and before["version"] is None:
        return True
      return not diff_obs(_obs(g), before)
  return True


HT_AA = ["aa:i:7", "aa:Z:x", "aa:f:1.5", "aa:J:[1]", "aa:i:x", "aa:A:xy"]

def h_fail_header_tags(vi: int, vl: int, twice: bool, ai: int, first: bool) -> bool:
  """
  pre: 0 <= vi < 3 and 0 <= vl <= 3 and 0 <= ai < 6
  post: _ == True
  """
  vp.enter("ht")
  version = [None, "gfa1", "gfa2"][vp.concretize(vi, 0, 2)]
  level = vp.concretize(vl, 0, 3)
  aa = HT_AA[vp.concretize(ai, 0, 5)]
  with NoTracing():
    g = gfapy.Gfa(version=version, vlevel=level)
    g.add_line("H\taa:i:1")
    if twice: g.add_line("H\taa:i:5")
    before = _obs(g)
  text = "H\t" + (aa + "\tbb:i:2" if first else "bb:i:2\t" + aa)
  try:
    g.add_line(text)
  except gfapy.Error:
    vp.reached("ht", version, level, text)
    with NoTracing():
      return not diff_obs(_obs(g), before)
  return True


EDIT1 = [("s1", "sequence"), ("s1", "LN"), ("s2", "xx"), (None, "TS")]
EDIT2 = [("s1", "slen"), ("s1", "sequence"), ("e1", "beg1"), ("g1", "disp"), (None, "TS")]
EVALS = ["x", "A C", "-1", "1.5", "", "7", "ACGT"]

def h_fail_edit(two: bool, ti: int, vi: int) -> bool:
  """
  pre: 0 <= ti < 5 and 0 <= vi < 7
  pre: two or ti < 4
  post: _ == True
  """
  vp.enter("ed")
  name, field = (EDIT2 if two else EDIT1)[vp.concretize(ti, 0, 4 if two else 3)]
  v = EVALS[vp.concretize(vi, 0, 6)]
  with NoTracing():
    g = gfapy.Gfa(list(BASE2 if two else BASE1), vlevel=3)
    if not two: g.line("s2").set("xx", 5)
    before = _obs(g)
  line = g.header if name is None else g.line(name)
  try:
    line.set(field, v)
  except gfapy.Error as e:
    vp.reached("ed", two, name, field, v, type(e).__name__)
    with NoTracing():
      return not diff_obs(_obs(g), before)
  return True
