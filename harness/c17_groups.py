"""C17: GFA2 groups resolve to the paths and sets the specification defines."""
from vlib import vp
from vlib.vp import gfapy, NoTracing
from spec import groups as G

NPART = vp.NPART
PART = vp.PART
THOROUGH = not vp.QUICK

META = {
 "property": "C17",
 "harnesses": {
  "h_captured_path": {"kind": "G",
    "functions": ["CapturedPath.captured_path/_compute_captured_path/_push_item_on_se_path/_push_first_edge_on_se_path/_push_nonfirst_edge_on_se_path/_push_segment_on_se_path/_find_edge_from_path_to_segment/_check_s_is_as_expected",
                  "captured_segments", "captured_edges", "OrientedLine.__eq__/inverted"],
    "bounds": "GFA2 graph s1..s4 with 5 dovetail edges (a parallel pair s1-s2 for ambiguity, a closing edge s4-s1), an inner path oin = s2+ s3- ; O group of 1..3 items, each ANY of 18 pool items (every segment and edge in both orientations, the inner path forwards and reversed, an undefined id); quick: 3-item lists over a 7-item sub-pool; compared with a second implementation: same walk, or an error of the documented class (NotFoundError non-contiguous, NotUniqueError ambiguous, error for inconsistent/unresolved)",
    "timeout": {"quick": 400, "thorough": 900}, "parts": {"quick": 16, "thorough": 16}},
  "h_induced_set": {"kind": "G",
    "functions": ["InducedSet.induced_set/induced_segments_set/induced_edges_set/_compute_induced_edges_set", "CapturedPath.captured_segments", "edge Other.other"],
    "bounds": "same graph plus an internal edge, an inner set and a gap; U group of 1..3 items, each ANY of 15 pool items (segments, edges incl. a loop and a hairpin, inner path, inner set, undefined id, gap): induced segments (first-occurrence order), induced edges, induced set equal the oracle; unresolved items refused",
    "timeout": {"quick": 400, "thorough": 900}, "parts": {"quick": 16, "thorough": 16}},
  "h_multiline": {"kind": "G",
    "functions": ["SameID._process_not_unique/_import_tags_of_previous_group_definition/_check_tags_of_previous_group_definition", "group References._initialize_references/_line_for_ref_symbol", "VirtualToReal._substitute_virtual_line"],
    "bounds": "U and O groups defined by 2..3 lines with one identifier: item lists from a pool of 6, tags disjoint / equal / contradicting, every arrival order of the group lines among a line that defines one of their items and a group that lists the multi-line group (4! orders): items = concatenation in arrival order, tags = union, contradicting tags refused without a trace",
    "timeout": {"quick": 300, "thorough": 900}, "parts": {"quick": 8, "thorough": 8}},
 },
}

BASE = ["S\ts1\t10\t*", "S\ts2\t10\t*", "S\ts3\t10\t*", "S\ts4\t10\t*",
        "E\te12\ts1+\ts2+\t5\t10$\t0\t5\t*", "E\te23\ts2+\ts3-\t5\t10$\t5\t10$\t*", "E\te34\ts3-\ts4+\t0\t5\t0\t5\t*",
        "E\te12b\ts1+\ts2+\t7\t10$\t0\t3\t*", "E\te41\ts4-\ts1-\t0\t3\t0\t3\t*", "E\te13\ts1+\ts3+\t2\t4\t2\t4\t*",
        "O\toin\ts2+ s3-", "U\tuin\ts4 e12", "G\tg1\ts1+\ts2-\t5\t*",
        "S\ts5\t10\t*", "E\t*\ts4+\ts5+\t6\t10$\t0\t4\t*", "E\t*\ts4+\ts5+\t7\t10$\t0\t3\t*",     # two anonymous parallel edges
        "E\tloop\ts5+\ts5+\t6\t10$\t0\t4\t*", "E\thp\ts3+\ts3-\t6\t10$\t6\t10$\t*"]     # a loop and a hairpin (edges from a segment to itself)
OPOOL = [("s1", "+"), ("s2", "+"), ("s3", "-"), ("e12", "+"), ("e23", "+"), ("s4", "+"), ("s5", "+"), ("oin", "-"), ("s2", "-"), ("e34", "-"), ("oin", "+"), ("s5", "-"),
         ("s1", "-"), ("s3", "+"), ("s4", "-"), ("e12", "-"), ("e23", "-"), ("e34", "+"), ("e41", "+"), ("zz", "+")]
NOP = len(OPOOL)
NOP3 = vp.T(7, NOP)
UPOOL = ["s1", "s2", "s4", "e12", "e23", "oin", "uin", "zz", "s3", "e41", "e13", "g1", "s5", "loop", "hp"]
NUP = len(UPOOL)
NUP3 = vp.T(6, NUP)
ERR = {"notfound": gfapy.NotFoundError, "notunique": gfapy.NotUniqueError, "inconsistent": gfapy.Error, "unresolved": gfapy.Error,
       "type": gfapy.Error}

def h_captured_path(k: int, i0: int, i1: int, i2: int) -> bool:
  """
  pre: 1 <= k <= 3 and 0 <= i0 < NOP and 0 <= i1 < NOP and 0 <= i2 < NOP
  pre: (k > 1 or i1 == 0) and (k > 2 or i2 == 0)
  pre: k < 3 or (i0 < NOP3 and i1 < NOP3 and i2 < NOP3)
  pre: (i0 + i1) % NPART == PART
  post: _ == True
  """
  vp.enter("cp")
  kk = vp.concretize(k, 1, 3)
  items = [OPOOL[vp.concretize(i, 0, NOP - 1)] for i in (i0, i1, i2)][:kk]
  # the same edge twice at the start can be walked from either side: both walks satisfy the specification
  if kk >= 2 and items[0] == items[1] and items[0][0].startswith("e"): return True
  doc = BASE + ["O\tox\t" + " ".join(a + b for a, b in items)]
  with NoTracing():
    g = gfapy.Gfa(doc, vlevel=0)
    model = G.parse(doc)
    try:
      want, werr = G.captured_path(model, "ox"), None
    except G.Problem as e:
      want, werr = None, e.kind
  ox = g.line("ox")
  try:
    got = [(str(x.name), x.orient) for x in ox.captured_path]
  except gfapy.Error as e:
    vp.reached("cp", items, type(e).__name__, werr)
    return want is None and isinstance(e, ERR[werr])
  # anonymous edges: the oracle numbers them
  want = [((("*", o) if n.startswith("*#") else (n, o))) for (n, o) in want] if want is not None else None
  vp.reached("cp", items, "ok", werr)
  if want is None or got != want: return False
  segs = [(str(x.name), x.orient) for x in ox.captured_segments]
  edges = [(str(x.name), x.orient) for x in ox.captured_edges]
  return segs == want[0::2] and edges == want[1::2]

def h_induced_set(k: int, i0: int, i1: int, i2: int) -> bool:
  """
  pre: 1 <= k <= 3 and 0 <= i0 < NUP and 0 <= i1 < NUP and 0 <= i2 < NUP
  pre: (k > 1 or i1 == 0) and (k > 2 or i2 == 0)
  pre: k < 3 or (i0 < NUP3 and i1 < NUP3 and i2 < NUP3)
  pre: (i0 + i1) % NPART == PART
  post: _ == True
  """
  vp.enter("is")
  kk = vp.concretize(k, 1, 3)
  items = [UPOOL[vp.concretize(i, 0, NUP - 1)] for i in (i0, i1, i2)][:kk]
  doc = BASE + ["U\tux\t" + " ".join(items)]
  with NoTracing():
    g = gfapy.Gfa(doc, vlevel=0)
    model = G.parse(doc)
    try:
      ws = G.induced_segments(model, "ux"); we = G.induced_edges(model, ws); werr = None
    except G.Problem as e:
      ws, we, werr = None, None, e.kind
  u = g.line("ux")
  try:
    gs = [str(x.name) for x in u.induced_segments_set]
    ge_lines = list(u.induced_edges_set)
    ge = [str(x.name) for x in ge_lines]
    gall = [str(x.name) for x in u.induced_set]
  except gfapy.Error as e:
    vp.reached("is", items, type(e).__name__)
    return ws is None
  vp.reached("is", items, "ok")
  if ws is None: return False
  we = sorted("*" if n.startswith("*#") else n for n in we)       # anonymous edges: the oracle numbers them
  return gs == ws and sorted(ge) == we and gall == gs + ge and len(set(id(x) for x in ge_lines)) == len(ge_lines)

GITEMS = {"U": ["s1 e12", "s3", "s2 oin", "s4", "s1", "e23 s4"], "O": ["s1+ s2+", "s3-", "s2+ s3-", "s3- s4+", "s1+", "e12+ s2+"]}
TAGSETS = [("xx:i:1", "yy:Z:q"), ("xx:i:1", "xx:i:1"), ("xx:i:1", "xx:i:2"), ("", "zz:i:5"), ("xx:i:1\tzz:Z:a", "yy:Z:q\tzz:Z:a")]

def h_multiline(ordered: bool, a: int, b: int, c: int, three: bool, ti: int, code: int) -> bool:
  """
  pre: 0 <= a < 6 and 0 <= b < 6 and 0 <= c < 6 and 0 <= ti < 5 and 0 <= code < 24
  pre: three or c == 0
  pre: THOROUGH or (code < 6 and not three and a < 3 and b < 3)
  pre: (a + b + code) % NPART == PART
  post: _ == True
  """
  vp.enter("ml")
  rt = "O" if ordered else "U"
  pool = GITEMS[rt]
  parts = [pool[vp.concretize(x, 0, 5)] for x in (a, b, c)][:3 if three else 2]
  t1, t2 = TAGSETS[vp.concretize(ti, 0, 4)]
  tags = [t1, t2, ""][:len(parts)]
  glines = [rt + "\tgx\t" + p + (("\t" + t) if t else "") for p, t in zip(parts, tags)]
  # arrival order of: the group lines (kept in their relative order) and a late segment / edge definition
  # and of a group that lists the multi-line group (it may arrive before, between or after its lines)
  parent = "O\tpx\tgx+" if ordered else "U\tpx\tgx s1"
  others = [parent, "E\te23\ts2+\ts3-\t5\t10$\t5\t10$\t*"]
  fixed = ["S\ts1\t10\t*", "S\ts2\t10\t*", "S\ts3\t10\t*", "E\te12\ts1+\ts2+\t5\t10$\t0\t5\t*", "O\toin\ts2+ s3-"]
  movable = glines[:2] + others
  perm = vp.perm_from(code, 4)
  arrival = [movable[i] for i in perm]
  # group lines must keep their relative order (the statement concatenates in arrival order)
  gi = [arrival.index(x) for x in glines[:2]] if glines[0] != glines[1] else [0, 1]
  if gi[0] > gi[1]:
    arrival[gi[0]], arrival[gi[1]] = arrival[gi[1]], arrival[gi[0]]
  doc = fixed + arrival + ["S\ts4\t10\t*"] + glines[2:]
  contradict = (t1, t2) == ("xx:i:1", "xx:i:2")
  with NoTracing():
    g = gfapy.Gfa(version="gfa2", vlevel=1)
  raised = None
  for t in doc:
    try:
      g.add_line(t)
    except gfapy.NotUniqueError as e:
      raised = t
      break
  vp.reached("ml", rt, parts, (t1, t2), perm)
  if contradict:
    if raised is None or not raised.startswith(rt + "\tgx"): return False
    with NoTracing():
      l = g.line("gx")
      # the refused line leaves no trace: the group is exactly its first definition
      return l is not None and str(l) == glines[0]
  if raised is not None: return False
  with NoTracing():
    l = g.line("gx")
    f = str(l).split("\t")
    want_items = " ".join(parts)
    if f[2] != want_items: return False
    want_tags = []
    for t in tags:
      for x in (t.split("\t") if t else []):
        if x not in want_tags: want_tags.append(x)
    if sorted(f[3:]) != sorted(want_tags): return False
    # one group line only, found under its identifier, references symmetric
    if len([x for x in g.lines if x.record_type == rt and str(x.name) == "gx"]) != 1: return False
    # the group that lists gx refers to the complete group, and gx knows it
    px = g.line("px")
    it = px.items[0]
    if (it.line if ordered else it) is not l: return False
    if [x for x in (l.paths if ordered else l.sets)] != [px]: return False
    from spec.observe import invariant
    if invariant(g): return False
  return True
