"""C04 (E2): the field validators accept exactly the grammar -- decided for
strings of any length by z3's sequence/regex theory on an encoding extracted
from the current sources."""
import ast, itertools, json, os, re, sys, time

META = {
 "property": "C04",
 "harnesses": {},
 "scripts": {
  "s_e2_validators": {"entry": "s_e2_validators", "timeout": {"quick": 600, "thorough": 900}},
 },
}

REPO = os.environ.get("VERIF_REPO", "/repo")
ALPHABET = ["\n", "\t", " ", "*", "+", "-", ",", "$", ":", "0", "7", "A", "m", "\x7f", "=", ".", "e", "!"]
EXTRA_LITERALS = ["", "*", "1M", "12M3I", "1,2", "-1,2", "a+", "a+,b-", "a+ b-", "10$", "$", "0", "+5", "-5", "1_0", " 5", "5 ",
                  "1.5", "1e5", ".5", "5.", "inf", "nan", "AF01", "af01", "A", "{}", "[1]", "c,1,2", "C,1,-2", "f,1.5", "x y",
                  "s1", "s+,1", "a\n", "a\tb", "E", "X", "#", "1M\n", "*\n", "+\n"]


def field_modules(repo):
  """datatype -> module name, read from gfapy/field/field.py's AST"""
  src = open(os.path.join(repo, "gfapy", "field", "field.py")).read()
  tree = ast.parse(src)
  alias = {}
  for node in tree.body:
    if isinstance(node, ast.ImportFrom) and node.level == 1 and node.module is None:
      for a in node.names:
        alias[a.asname or a.name] = a.name
  out = {}
  for node in ast.walk(tree):
    if isinstance(node, ast.Assign) and any(isinstance(t, ast.Name) and t.id == "FIELD_MODULE" for t in node.targets):
      for k, v in zip(node.value.keys, node.value.values):
        if isinstance(k, ast.Constant) and isinstance(v, ast.Name) and v.id in alias:
          out[k.value] = alias[v.id]
  return out


def _grammar_re(dt):
  """the grammar of one datatype as a z3 regular expression (side conditions as intersections)"""
  import z3
  from vlib import e2_regex as E
  from spec import gfa_grammar as G
  g = E.fullmatch_re(G.GRAMMAR[dt])
  if dt == "segment_name_gfa1":
    g = z3.Intersect(g, z3.Complement(E.search_re(r"[+-],")))
  if dt == "custom_record_type":
    g = z3.Intersect(g, z3.Complement(z3.Union(*[z3.Re(z3.StringVal(x)) for x in G.RESERVED_RECORD_TYPES])))
  return g


def _real(mod, fname="validate_encoded"):
  sys.path.insert(0, REPO)
  import importlib
  import gfapy
  m = importlib.import_module("gfapy.field." + mod)
  f = getattr(m, fname)
  def accepts(x):
    try:
      f(x)
      return True
    except gfapy.Error:
      return False
  return accepts


def s_e2_validators():
  import z3
  from vlib import e2_regex as E
  from spec import gfa_grammar as G
  tier = os.environ.get("VERIF_TIER", "quick")
  maxlen = 2 if tier == "quick" else 3
  mods = field_modules(REPO)
  s = z3.String("s")
  solver = E.Solver(cross=(tier != "quick"))          # thorough: every query also decided by the cvc5 and z3 binaries
  res = {"obligations": 0, "discharged": 0, "evaluations": 0, "distinct_nontrivial": 0, "samples": [], "violations": [],
         "errors": [], "inconclusive": [], "functions": [], "detail": {}}
  tv_strings = [""] + ["".join(p) for n in range(1, maxlen + 1) for p in itertools.product(ALPHABET, repeat=n)] + EXTRA_LITERALS
  seen_mod = {}
  for dt in sorted(G.GRAMMAR):
    if dt not in mods:
      res["errors"].append("datatype %s of the grammar is not in gfapy's FIELD_MODULE" % dt); continue
    mod = mods[dt]
    res["obligations"] += 1
    try:
      A, where = E.encode_validator(REPO, mod, s)
    except E.Unsupported as e:
      res["inconclusive"].append("%s: validate_encoded outside the E2 vocabulary (%s); covered by the bounded E1 harness" % (dt, e))
      continue
    res["functions"].append(where)
    # ---- translation validation: encoding vs the real function -------------
    real = _real(mod)
    t0 = time.time(); dis = None
    for x in tv_strings:
      if E.eval_in_model(A, s, x) != real(x):
        dis = x; break
    res["evaluations"] += len(tv_strings)
    if dis is not None:
      res["errors"].append("%s: the z3 encoding of %s disagrees with the real function on %r" % (dt, where, dis)); continue
    # ---- language equality --------------------------------------------------
    Gr = _grammar_re(dt)
    Gz = z3.InRe(s, Gr)
    cons = [A != Gz]
    verdict, model = solver.check(*cons)
    res["distinct_nontrivial"] += 1
    if verdict == "unsat":
      res["discharged"] += 1
      if len(res["samples"]) < 4:
        res["samples"].append({"datatype": dt, "validator": where, "grammar": G.GRAMMAR[dt], "verdict": "languages equal (unsat), any length"})
    elif verdict == "sat":
      w = model[s].as_string() if model[s] is not None else ""
      w = _unescape(w)
      res["violations"].append({"args": [dt, w], "message": "%s (%s) and the grammar %r disagree on %r" % (dt, where, G.GRAMMAR[dt], w)})
    else:
      res["inconclusive"].append("%s: solver answered %s" % (dt, verdict))
    # ---- decode delegates to the validator? ---------------------------------
    res["detail"][dt] = {"validator": where, "decode_is_validate_then_return": E.decode_delegates_to_validator(REPO, mod)}
  # tag syntax (Parser._parse_gfa_tag): re.match with a literal pattern
  res["obligations"] += 1
  try:
    pat = _tag_pattern(REPO)
    A = z3.InRe(s, E.match_re(pat))
    Gz = z3.InRe(s, E.fullmatch_re(G.TAG))
    cons = [A != Gz]
    verdict, model = solver.check(*cons)
    if verdict == "unsat": res["discharged"] += 1
    elif verdict == "sat":
      w = _unescape(model[s].as_string())
      res["violations"].append({"args": ["tag", w], "message": "tag syntax %r and the grammar %r disagree on %r" % (pat, G.TAG, w)})
    else: res["inconclusive"].append("tag: solver answered " + verdict)
    res["functions"].append("gfapy/field/parser.py Parser._parse_gfa_tag")
  except (E.Unsupported, LookupError) as e:
    res["inconclusive"].append("tag syntax: %s" % e)
  res["queries"] = solver.queries; res["solver_s"] = solver.solver_s
  if solver.cross:
    res["detail"]["second_solvers"] = {"results": solver.cross_results, "disagreements": solver.disagreements,
                                       "note": "each language-equality query exported as SMT-LIB2 (QF_SLIA) and re-decided by cvc5 (binary) and z3 4.8.12 (binary); 'unknown' = timeout or unsupported construct"}
  res["bounds"] = "strings of ANY length (z3 sequence theory); translation validated on all strings of length <= %d over a %d-character alphabet plus %d literals" % (maxlen, len(ALPHABET), len(EXTRA_LITERALS))
  json.dump(res, open(os.environ["VERIF_OUT"], "w"))


def _tag_pattern(repo):
  src = open(os.path.join(repo, "gfapy", "field", "parser.py")).read()
  tree = ast.parse(src)
  for node in ast.walk(tree):
    if isinstance(node, ast.FunctionDef) and node.name == "_parse_gfa_tag":
      for c in ast.walk(node):
        if isinstance(c, ast.Call) and isinstance(c.func, ast.Attribute) and c.func.attr == "match" and isinstance(c.args[0], ast.Constant):
          return c.args[0].value
  raise LookupError("pattern of _parse_gfa_tag not found")


def _unescape(w):
  """z3 prints non-printable characters as \\u{..}"""
  return re.sub(r"\\u\{([0-9a-fA-F]+)\}", lambda m: chr(int(m.group(1), 16)), w)


def replay_s_e2_validators(dt, w):
  """native replay: does the real validator agree with the grammar on w?"""
  from spec import gfa_grammar as G
  if dt == "tag":
    sys.path.insert(0, REPO)
    import gfapy
    try:
      gfapy.Field._parse_gfa_tag(w); real = True
    except gfapy.Error:
      real = False
    return real == (re.fullmatch(G.TAG, w) is not None)
  mods = field_modules(REPO)
  return _real(mods[dt])(w) == G.accepts(dt, w)
