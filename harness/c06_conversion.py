"""C06: GFA1 <-> GFA2 conversion preserves the graph and emits valid output."""
from typing import List, Tuple
from vlib import vp
from vlib.vp import gfapy, NoTracing
from spec import edgesem
from spec.observe import canon_text, canon_doc, line_text

NPART = vp.NPART
PART = vp.PART

META = {
 "property": "C06",
 "harnesses": {
  "h_link_to_e_coords": {"kind": "K",
    "functions": ["gfapy.line.edge.link.to_gfa2.ToGFA2.from_coords/to_coords/_lastpos_if_segment_end",
                  "gfapy.line.edge.gfa1.to_gfa2.ToGFA2.sid1/sid2/beg1/end1/beg2/end2/alignment/_lastpos_of",
                  "CIGAR.length_on_reference/length_on_query", "LastPos.__sub__/__eq__", "Connection.connect"],
    "bounds": "one link between two segments whose lengths are ANY integers >= 1 (LN tags, unbounded z3 Int); CIGAR of 1..3 operations over {M,I,D,P} with ANY lengths >= 0 fitting the segments; all 4 orientation pairs",
    "timeout": {"quick": 200, "thorough": 900}, "parts": {"quick": 4, "thorough": 4}},
  "h_containment_to_e_coords": {"kind": "K",
    "functions": ["gfapy.line.edge.containment.to_gfa2.ToGFA2.from_coords/to_coords", "Containment.rpos", "gfa1.to_gfa2 accessors"],
    "bounds": "one containment, container/contained lengths and pos ANY integers (pos + reference length <= container length, query length == contained length), CIGAR of 1..3 operations with ANY lengths; all 4 orientation pairs",
    "timeout": {"quick": 200, "thorough": 900}, "parts": {"quick": 4, "thorough": 4}},
  "h_e_to_link_fields": {"kind": "K",
    "functions": ["gfapy.line.edge.gfa2.to_gfa1.ToGFA1.overlap/oriented_from/oriented_to/from_segment/to_segment/from_orient/to_orient/pos/_is_sid1_from/_segment_role",
                  "AlignmentType._alignment_type"],
    "bounds": "one E line whose intervals are derived from ANY segment lengths and a CIGAR of 1..3 operations with ANY lengths (dovetail suffix/prefix, prefix/suffix, prefix/prefix, suffix/suffix, containment either way with the contained segment in the middle, at the start or at the end of the container); orientations symbolic",
    "timeout": {"quick": 300, "thorough": 900}, "parts": {"quick": 10, "thorough": 10}},
  "h_roundtrip_gfa1": {"kind": "G",
    "functions": ["Gfa.to_gfa2/to_gfa2_s/to_gfa1/to_gfa1_s", "VersionConversion.to_version/to_version_s", "gfa1.to_gfa2.ToGFA2._to_gfa2_a",
                  "gfa2.to_gfa1.ToGFA1._to_gfa1_a", "segment GFA1ToGFA2/GFA2ToGFA1", "path ToGFA2._to_gfa2_a", "ordered ToGFA1._to_gfa1_a",
                  "CapturedPath", "header VersionConversion", "Collections.unused_name"],
    "bounds": "GFA1 documents: 3 segments (lengths from {6,10}), link/containment with one of 4 (quick) / 8 (thorough) mostly asymmetric CIGARs x 4 orientation pairs x {named, unnamed} x optional path (linear along / against the link, circular, single segment) x tags; converted text must parse at vlevel 3 and validate, E intervals per oracle, and conversion back must give an equivalent document",
    "timeout": {"quick": 400, "thorough": 900}, "parts": {"quick": 16, "thorough": 16}},
  "h_roundtrip_gfa2": {"kind": "G",
    "functions": ["Gfa.to_gfa1/to_gfa1_s/to_gfa2_s", "gfa2.to_gfa1.ToGFA1._to_gfa1_a", "ordered ToGFA1", "records without counterpart"],
    "bounds": "GFA2 documents: 2-3 segments, E line from 9 interval patterns (dovetail x4, containment x4 incl. at the container's end/start, internal) x orientations x 3 alignments, plus F, G, U, custom record, O paths (segments only / through the edge / the edge alone forwards and backwards / backwards edge then segment): dropped or refused, never mistranslated; converted text valid GFA1 at vlevel 3; back-conversion equivalent",
    "timeout": {"quick": 400, "thorough": 900}, "parts": {"quick": 14, "thorough": 14}},
 },
}

CODES = ["M", "I", "D", "P"]
ORI = ["-", "+"]

def _cigar(ops):
  return gfapy.CIGAR([gfapy.CIGAR.Operation(n, vp.pick(CODES, c)) for (c, n) in ops])

def _codes(ops):
  return [(vp.pick(CODES, c), n) for (c, n) in ops]

def _seg1(name, length):
  return gfapy.line.segment.GFA1({"name": name, "sequence": gfapy.Placeholder(), "LN": length}, version="gfa1")

def _posval(x):
  return (gfapy.posvalue(x), gfapy.islastpos(x))

def h_link_to_e_coords(pf: bool, pt: bool, Lf: int, Lt: int, ops: List[Tuple[int, int]]) -> bool:
  """
  pre: (2 * pf + pt) % NPART == PART
  pre: 1 <= len(ops) <= 3
  pre: all(0 <= c < 4 and 0 <= n for (c, n) in ops)
  pre: Lf >= 1 and Lt >= 1
  post: _ == True
  """
  vp.enter("l2e")
  fo, to = ORI[pf], ORI[pt]
  ref, qry = edgesem.cigar_ref_qry(_codes(ops))
  if ref > Lf or qry > Lt: return True
  g = gfapy.Gfa(version="gfa1")
  a = _seg1("a", Lf); b = _seg1("b", Lt)
  a.connect(g); b.connect(g)
  l = gfapy.line.edge.Link({"from_segment": "a", "from_orient": fo, "to_segment": "b", "to_orient": to,
                            "overlap": _cigar(ops)}, version="gfa1")
  l.connect(g)
  vp.reached("l2e", fo, to, len(ops))
  (b1, e1, l1), (b2, e2, l2) = edgesem.link_intervals(fo, to, Lf, Lt, ref, qry)
  fc, tc = l.from_coords, l.to_coords
  if _posval(fc[0]) != (b1, b1 == Lf) or _posval(fc[1]) != (e1, l1): return False
  if _posval(tc[0]) != (b2, b2 == Lt) or _posval(tc[1]) != (e2, l2): return False
  # the E-line accessors of the link
  if _posval(l.beg1) != _posval(fc[0]) or _posval(l.end1) != _posval(fc[1]): return False
  if _posval(l.beg2) != _posval(tc[0]) or _posval(l.end2) != _posval(tc[1]): return False
  if l.sid1.line is not a or l.sid1.orient != fo or l.sid2.line is not b or l.sid2.orient != to: return False
  if [(op.code, op.length) for op in l.alignment] != _codes(ops): return False
  return True

def h_containment_to_e_coords(pf: bool, pt: bool, Lf: int, Lt: int, pos: int, ops: List[Tuple[int, int]]) -> bool:
  """
  pre: (2 * pf + pt) % NPART == PART
  pre: 1 <= len(ops) <= 3
  pre: all(0 <= c < 4 and 0 <= n for (c, n) in ops)
  pre: Lf >= 1 and Lt >= 1 and pos >= 0
  post: _ == True
  """
  vp.enter("c2e")
  fo, to = ORI[pf], ORI[pt]
  ref, qry = edgesem.cigar_ref_qry(_codes(ops))
  if pos + ref > Lf or qry != Lt: return True
  g = gfapy.Gfa(version="gfa1")
  a = _seg1("a", Lf); b = _seg1("b", Lt)
  a.connect(g); b.connect(g)
  c = gfapy.line.edge.Containment({"from_segment": "a", "from_orient": fo, "to_segment": "b", "to_orient": to,
                                   "pos": pos, "overlap": _cigar(ops)}, version="gfa1")
  c.connect(g)
  vp.reached("c2e", fo, to, len(ops))
  (b1, e1, l1), (b2, e2, l2) = edgesem.containment_intervals(pos, Lf, Lt, ref)
  fc, tc = c.from_coords, c.to_coords
  if _posval(fc[0])[0] != b1 or _posval(fc[1]) != (e1, l1): return False
  if _posval(tc[0])[0] != b2 or _posval(tc[1]) != (e2, l2): return False
  if c.rpos != pos + ref: return False
  if _posval(c.beg2)[0] != 0 or _posval(c.end2) != (Lt, True): return False
  return True

# E-line patterns: (kind of side 1, kind of side 2)
EPAT = [("sfx", "pfx"), ("pfx", "sfx"), ("pfx", "pfx"), ("sfx", "sfx"), ("inner", "whole"), ("whole", "inner"),
        ("whole", "sfx"), ("whole", "pfx"), ("sfx", "whole"), ("pfx", "whole")]      # containments touching an end of the container

def _interval(kind, L, n, inner_beg):
  """interval of aligned length n on a segment of length L"""
  if kind == "pfx": return (0, n, False)
  if kind == "sfx": return (L - n, gfapy.LastPos(L), True)
  if kind == "whole": return (0, gfapy.LastPos(L), True)
  return (inner_beg, inner_beg + n, False)

def h_e_to_link_fields(p1: bool, p2: bool, pat: int, L1: int, L2: int, ib: int, ops: List[Tuple[int, int]]) -> bool:
  """
  pre: pat % NPART == PART
  pre: 0 <= pat < 10
  pre: 1 <= len(ops) <= 3
  pre: all(0 <= c < 4 and 0 <= n for (c, n) in ops)
  pre: L1 >= 2 and L2 >= 2 and ib >= 1
  post: _ == True
  """
  vp.enter("e2l")
  o1, o2 = ORI[p1], ORI[p2]
  k1, k2 = vp.pick(EPAT, pat)
  ref, qry = edgesem.cigar_ref_qry(_codes(ops))
  # intervals consistent with the alignment and proper (not degenerate)
  if k1 == "whole":
    if ref != L1: return True
  elif not (1 <= ref < L1) or (k1 == "inner" and ib + ref >= L1): return True
  if k2 == "whole":
    if qry != L2: return True
  elif not (1 <= qry < L2) or (k2 == "inner" and ib + qry >= L2): return True
  b1, e1, _ = _interval(k1, L1, ref, ib)
  b2, e2, _ = _interval(k2, L2, qry, ib)
  e = gfapy.line.edge.GFA2({"eid": "e1", "sid1": gfapy.OrientedLine("a", o1), "sid2": gfapy.OrientedLine("b", o2),
                            "beg1": b1, "end1": e1, "beg2": b2, "end2": e2, "alignment": _cigar(ops)}, version="gfa2")
  exp = edgesem.e_class(o1, k1, o2, k2)
  vp.reached("e2l", o1, o2, k1, k2, exp["kind"])
  if exp["kind"] == "internal":
    try:
      e.overlap
      return False
    except gfapy.ValueError:
      return True
  sw = {"I": "D", "D": "I"}
  if exp["sid1_is_from"]:
    frm, to, want = ("a", o1), ("b", o2), _codes(ops)
  else:
    frm, to, want = ("b", o2), ("a", o1), [(sw.get(c, c), n) for (c, n) in _codes(ops)]
  if e._alignment_type != ("L" if exp["kind"] == "dovetail" else "C"): return False
  if (e.from_segment, e.from_orient, e.to_segment, e.to_orient) != (frm[0], frm[1], to[0], to[1]): return False
  if [(op.code, op.length) for op in e.overlap] != want: return False
  # the receiver's own alignment is not disturbed (C10)
  if [(op.code, op.length) for op in e.alignment] != _codes(ops): return False
  if exp["kind"] == "containment":
    # position of the contained segment inside the container, container coordinates
    cb = b1 if exp["sid1_is_from"] else b2
    if gfapy.posvalue(e.pos) != cb: return False
  return True

# ---------------------------------------------------------------------------
# whole-graph round trips (choice spaces; ints travel through text)
# ---------------------------------------------------------------------------
CIGS = ["1M1D2M", "2I1M", "1M2I1D1M", "3M", "2M1P1M", "1D3M", "4M", "1M1I1M1D"]
THOROUGH = not vp.QUICK
NCIG = vp.T(4, 8)
VLMAX = vp.T(0, 1)
PATHS = [None, "along", "against", "circular", "single"]
INVO = {"+": "-", "-": "+"}

def _ops_of(cig):
  out = []; num = ""
  for ch in cig:
    if ch.isdigit(): num += ch
    else: out.append((ch, int(num))); num = ""
  return out

def _swap_id(cig):
  sw = {"I": "D", "D": "I"}
  return "".join(str(n) + sw.get(c, c) for (c, n) in _ops_of(cig))

def h_roundtrip_gfa1(kind: bool, ci: int, pf: bool, pt: bool, named: bool, pth: int, la: bool, vl: int) -> bool:
  """
  pre: 0 <= ci < NCIG and 0 <= pth < 5 and 0 <= vl <= VLMAX
  pre: THOROUGH or la
  pre: (ci * 8 + pf * 4 + pt * 2 + kind) % NPART == PART
  post: _ == True
  """
  vp.enter("r1")
  fo, to = ORI[pf], ORI[pt]
  cig = vp.pick(CIGS, ci)
  ref, qry = edgesem.cigar_ref_qry(_ops_of(cig))
  La = 10 if la else 6
  path = vp.pick(PATHS, pth)
  tag = "\tab:Z:x y\tKC:i:12"
  if kind:       # link a -> b, b -> c closes paths
    Lb = 10
    edge = "L\ta\t" + fo + "\tb\t" + to + "\t" + cig + ("\tID:Z:lnk" if named else "") + tag
    doc = ["H\tVN:Z:1.0\txy:i:1", "S\ta\t*\tLN:i:" + str(La) + "\tRC:i:7", "S\tb\t*\tLN:i:" + str(Lb),
           "S\tc\tACGTAC\tLN:i:6", edge, "L\tb\t" + to + "\tc\t+\t2M\tID:Z:l2", "L\tc\t+\ta\t" + fo + "\t1M"]
    if path == "along": doc.append("P\tp\ta" + fo + ",b" + to + ",c+\t" + cig + ",2M")
    elif path == "against": doc.append("P\tp\tc-,b" + INVO[to] + ",a" + INVO[fo] + "\t*")
    elif path == "circular": doc.append("P\tp\ta" + fo + ",b" + to + ",c+\t" + cig + ",2M,1M")
    elif path == "single": doc.append("P\tp\tb+\t*")
  else:          # containment of b (length = query length) in a
    Lb = qry
    pos = 1 if 1 + ref < La else 0
    if Lb < 1 or pos + ref > La: return True
    path = None
    edge = "C\ta\t" + fo + "\tb\t" + to + "\t" + str(pos) + "\t" + cig + ("\tID:Z:cnt" if named else "") + tag
    doc = ["S\ta\t*\tLN:i:" + str(La), "S\tb\t*\tLN:i:" + str(Lb), edge]
  level = 1 if vl == 0 else 3
  with NoTracing():
    g = gfapy.Gfa(doc, vlevel=level)      # parsing is C01/C04's subject; the conversion runs traced
  g2 = g.to_gfa2()
  t2 = g.to_gfa2_s() if named else str(g2)
  vp.reached("r1", doc[-1] if path else edge)
  with NoTracing():
    # 1. target-version validity at the strictest level
    try:
      chk = gfapy.Gfa(t2, vlevel=3); chk.validate()
      for l in chk.lines: l.validate()
    except gfapy.Error:
      return False
    if chk.version != "gfa2": return False
    # 2. segments keep identifier, length and sequence; tags carried over
    for s in g.segments:
      s2 = chk.segment(s.name)
      if s2 is None or s2.slen != s.LN or str(s2.sequence) != str(s.sequence): return False
      for tn in s.tagnames:
        if tn != "LN" and s2.get(tn) != s.get(tn): return False
    # 3. the E line: same oriented pair, spec intervals, same alignment
    es = [e for e in chk.edges if str(e.sid1) == "a" + fo and str(e.sid2) == "b" + to and str(e.alignment) == cig]
    if len(es) != 1: return False
    e = es[0]
    if kind:
      (b1, e1, l1), (b2, e2, l2) = edgesem.link_intervals(fo, to, La, Lb, ref, qry)
    else:
      (b1, e1, l1), (b2, e2, l2) = edgesem.containment_intervals(pos, La, Lb, ref)
    def pv(x): return (gfapy.posvalue(x), gfapy.islastpos(x))
    if pv(e.beg1)[0] != b1 or pv(e.end1) != (e1, l1) or pv(e.beg2)[0] != b2 or pv(e.end2) != (e2, l2): return False
    if named and e.name != ("lnk" if kind else "cnt"): return False
    if e.get("ab") != "x y" or e.get("KC") != 12: return False
    # 4. path: same oriented segments through the same edges
    if path:
      o = chk.line("p")
      if o is None: return False
      want = {"along": ["a" + fo, "b" + to, "c+"], "against": ["c-", "b" + INVO[to], "a" + INVO[fo]],
              "circular": ["a" + fo, "b" + to, "c+", "a" + fo], "single": ["b+"]}[path]
      if [str(x) for x in o.captured_segments] != want: return False
    # 5. there and back: an equivalent GFA1 document
    try:
      back = chk.to_gfa1_s()
      g1 = gfapy.Gfa(back, vlevel=3); g1.validate()
    except gfapy.Error:
      return False
    dovetail_proper = (not kind) or (ref < La and qry < Lb and ref < Lb and qry < La)
    if dovetail_proper:
      def strip(t):      # compare without the ID tags the conversion assigns
        return "\t".join(x for x in t.split("\t") if not x.startswith("ID:Z:"))
      def hsplit(ts):
        out = []
        for t in ts:
          f = t.split("\t")
          out += (["H\t" + x for x in f[1:]] if f[0] == "H" else [t])
        return out
      a_ = sorted(canon_text(strip(t)) for t in hsplit(doc))
      b_ = sorted(canon_text(strip(t)) for t in back.split("\n"))
      if path in ("against", "circular"):
        # '*' overlaps are written out; a circular path comes back as the same walk written
        # linearly (first segment repeated): compare everything else and the path's walk
        a_ = [t for t in a_ if not t.startswith("P\t")]; pb = [t for t in b_ if t.startswith("P\t")]
        b_ = [t for t in b_ if not t.startswith("P\t")]
        wantp = ("c-,b" + INVO[to] + ",a" + INVO[fo]) if path == "against" else \
                ("a" + fo + ",b" + to + ",c+,a" + fo)
        if len(pb) != 1 or pb[0].split("\t")[2] != wantp: return False
        if path == "circular" and pb[0].split("\t")[3] != cig + ",2M,1M": return False
      def tagsort(t):
        f = t.split("\t"); n = {"H": 1, "S": 3, "L": 6, "C": 7, "P": 4}[f[0]]
        return "\t".join(f[:n] + sorted(f[n:]))
      if sorted(map(tagsort, a_)) != sorted(map(tagsort, b_)): return False
  return True

E7 = [(("6", "10$"), ("0", "4")), (("0", "4"), ("6", "10$")), (("0", "4"), ("0", "4")), (("6", "10$"), ("6", "10$")),
      (("2", "6"), ("0", "4$")), (("0", "4$"), ("3", "7")), (("2", "6"), ("3", "7")), (("0", "4$"), ("6", "10$")), (("0", "4"), ("0", "4$"))]
ALN = ["4M", "1M1D2M1I", "*"]
EXTRA = [None, "F\ta\tread1+\t0\t4\t0\t4\t*", "G\tg1\ta+\tb-\t5\t*", "U\tu1\ta b e1", "X\tcustom\tdata", "O\to1\ta+ b+",
         "O\to2\ta+ e1+ b+", "E\te2\ta+\tb+\t1\t5\t1\t5\t2,2\tTS:i:2", "O\to3\te1+", "O\to4\te1-", "O\to5\te1- {a}"]
NX = len(EXTRA)

def h_roundtrip_gfa2(pi: int, ai: int, p1: bool, p2: bool, xi: int) -> bool:
  """
  pre: 0 <= pi < 9 and 0 <= ai < 3 and 0 <= xi < NX
  pre: (pi + xi) % NPART == PART
  post: _ == True
  """
  vp.enter("r2")
  o1, o2 = ORI[p1], ORI[p2]
  iv1, iv2 = vp.pick(E7, pi)
  aln = vp.pick(ALN, ai)
  extra = vp.pick(EXTRA, xi)
  L1 = 4 if iv1[1] == "4$" else 10
  L2 = 4 if iv2[1] == "4$" else 10
  if extra is not None and extra.startswith("O\t") and "e1" not in extra.split("\t")[2].split(" ")[0]:
    if pi != 0: return True    # a+ b+ is a walk only over the suffix/prefix dovetail (group resolution itself: C17)
    o1, o2 = "+", "+"          # the group items name a+ and b+
  if extra is not None and "{a}" in extra:
    extra = extra.replace("{a}", "a" + INVO[o1])      # the edge walked backwards, then its first segment inverted
  doc = ["H\tVN:Z:2.0", "S\ta\t" + str(L1) + "\t*", ("S\tb\t10\tACGTACGTAC" if L2 == 10 else "S\tb\t4\tACGT"),
         "E\te1\ta" + o1 + "\tb" + o2 + "\t" + iv1[0] + "\t" + iv1[1] + "\t" + iv2[0] + "\t" + iv2[1] + "\t" + aln + "\tab:Z:q"]
  if extra is not None: doc.append(extra)
  def kind_of(iv, L):
    return edgesem.interval_kind(int(iv[0]), int(iv[1].rstrip("$")), iv[1].endswith("$"))
  exp = edgesem.e_class(o1, kind_of(iv1, L1), o2, kind_of(iv2, L2))
  with NoTracing():
    try:
      g = gfapy.Gfa(doc, vlevel=3)
    except gfapy.Error:
      return True       # (the O item list is not a path for this edge pattern)
  vp.reached("r2", doc[3], extra, exp["kind"])
  e = g.line("e1")
  # line-level conversion: internal edges and records without counterpart are refused
  if exp["kind"] == "internal":
    try:
      e.to_gfa1()
      return False
    except gfapy.Error:
      pass
  for rt_line in g.fragments + g.gaps + g.sets + g.custom_records:
    try:
      if rt_line.to_gfa1() is not None: return False
    except gfapy.Error:
      pass
  # whole-graph conversion: dropped or refused, never mistranslated
  try:
    t1 = g.to_gfa1_s()
  except gfapy.Error:
    return exp["kind"] == "internal" or (extra is not None and extra.startswith(("O\t", "E\t")))
  with NoTracing():
    try:
      g1 = gfapy.Gfa(t1, vlevel=3, version="gfa1"); g1.validate()
      for l in g1.lines: l.validate()
    except gfapy.Error:
      return False
    lines = [l for l in t1.split("\n") if l]
    if any(l[0] not in "HSLCP#" for l in lines): return False
    if extra is not None and extra.startswith("O\t"):
      # the O group becomes a P line visiting the same oriented segments (second implementation: spec/groups),
      # or, when its walk uses an edge that is not a dovetail, is dropped
      from spec import groups as GR
      model = GR.parse(doc)
      walk = GR.captured_path(model, extra.split("\t")[1])
      ps = [l for l in lines if l[0] == "P"]
      if exp["kind"] != "dovetail":
        if ps: return False
      else:
        if len(ps) != 1: return False
        if ps[0].split("\t")[2] != ",".join(n + o for (n, o) in walk[0::2]): return False
    lc = [l for l in lines if l[0] in "LC" and "ID:Z:e1" in l.split("\t")]
    if exp["kind"] == "internal":
      if lc: return False
    else:
      if len(lc) != 1: return False
      f = lc[0].split("\t")
      frm, to = (("a", o1), ("b", o2)) if exp["sid1_is_from"] else (("b", o2), ("a", o1))
      if f[0] != ("L" if exp["kind"] == "dovetail" else "C"): return False
      if f[1:5] != [frm[0], frm[1], to[0], to[1]]: return False
      ov = f[5] if f[0] == "L" else f[6]
      want = aln if (exp["sid1_is_from"] or aln == "*") else _swap_id(aln)
      if ov != want: return False
      if "ab:Z:q" not in f: return False
      if f[0] == "C":
        cb = iv1[0] if exp["sid1_is_from"] else iv2[0]
        if f[5] != cb: return False
    # segments
    for s in g.segments:
      s1 = g1.segment(s.name)
      if s1 is None or s1.LN != s.slen or str(s1.sequence) != str(s.sequence): return False
    # and back again: the edge returns with equivalent intervals
    if exp["kind"] != "internal" and aln != "*":
      try:
        t2 = g1.to_gfa2_s()
        g2 = gfapy.Gfa(t2, vlevel=3); g2.validate()
      except gfapy.Error:
        return False
      e2 = g2.line("e1")
      if e2 is None: return False
      a, b = e2.to_list()[2:9], e.to_list()[2:9]
      swapped = [a[1], a[0], a[4], a[5], a[2], a[3], _swap_id(a[6])]
      if a != b and swapped != b: return False
  return True
