"""C02: the reference graph stays closed and symmetric under every mutation history."""
from vlib import vp
from vlib.vp import gfapy, NoTracing
from harness import histlib as H

NPART = vp.NPART
PART = vp.PART
_FUNCS = ["Gfa.rm", "Gfa.add_line", "Line.disconnect", "Disconnection._remove_field_backreferences/_remove_field_references/_disconnect_dependent_lines/_remove_nonfield_backreferences",
          "UpdateReferences._update_references", "Connection.connect", "VirtualToReal._substitute_virtual_line",
          "SameID._process_not_unique", "FieldData._set_existing_field (rename)", "Destructors._unregister_line", "Creators._register_line",
          "*/references._initialize_references"]
_B = "base states gfa1 (fan-out, containment, paths over a link and over its complement), gfa1b (self link, hairpin, parallel links), gfa2 (E dovetail/containment/internal, G, F, O, U, nested U), gfa2b (gap in a set that arrives before it, two gaps on one end, nested O, contained-first containment E); ordered groups list segments, edges and groups only, a gap is never the only item of a set, no group contains itself; "

META = {
 "property": "C02",
 "harnesses": {
  "h_hist2": {"kind": "G", "functions": _FUNCS,
    "bounds": _B + "every history of 2 steps over {rm(any identifier), add_line(any pool line: forward references, duplicates, complements, group merges), disconnect(any L/C/E/G/F instance), rename to a fresh name}; invariant checked after every step",
    "timeout": {"quick": 400, "thorough": 900}, "parts": {"quick": 16, "thorough": 16}},
  "h_hist3": {"kind": "G", "functions": _FUNCS, "tiers": ["thorough"],
    "bounds": _B + "every history of 3 steps over {rm, add_line}",
    "timeout": {"thorough": 900}, "parts": {"thorough": 16}},
 },
}

BASEKEYS = ["gfa1", "gfa1b", "gfa2", "gfa2b"]
TAB2 = {b: H.step_table(b, [0, 1, 3, 5]) for b in BASEKEYS}
TAB3 = {b: H.step_table(b, [0, 1]) for b in BASEKEYS}
N2 = max(len(t) for t in TAB2.values())
N3 = max(len(t) for t in TAB3.values())

def h_hist2(bi: int, c1: int, c2: int) -> bool:
  """
  pre: 0 <= bi < 4 and 0 <= c1 < N2 and 0 <= c2 < N2
  pre: (c1 + c2 + bi) % NPART == PART
  post: _ == True
  """
  vp.enter("h2")
  base = vp.pick(BASEKEYS, bi)
  tab = TAB2[base]
  if c1 >= len(tab) or c2 >= len(tab): return True
  return H.run(base, tab, [c1, c2], "C02", "h2")

def h_hist3(bi: int, c1: int, c2: int, c3: int) -> bool:
  """
  pre: 0 <= bi < 4 and 0 <= c1 < N3 and 0 <= c2 < N3 and 0 <= c3 < N3
  pre: (c1 + c2 + bi) % NPART == PART
  post: _ == True
  """
  vp.enter("h3")
  base = vp.pick(BASEKEYS, bi)
  tab = TAB3[base]
  if c1 >= len(tab) or c2 >= len(tab) or c3 >= len(tab): return True
  return H.run(base, tab, [c1, c2, c3], "C02", "h3")
