"""C19: a clone is an equal, detached and fully independent line."""
from vlib import vp
from vlib.vp import gfapy, NoTracing
from spec.observe import line_text

NPART = vp.NPART
PART = vp.PART

META = {
 "property": "C19",
 "harnesses": {
  "h_clone": {"kind": "L/G",
    "functions": ["gfapy.line.common.cloning.Cloning.clone", "Line.__eq__", "Line.__str__/field_to_s", "FieldData.set/get/delete",
                  "Connection.is_connected/gfa", "OrientedLine.orient/line setters", "CIGAR.Operation", "NumericArray/ByteArray/FieldArray values"],
    "bounds": "every line of two documents covering all record types (H,#,S,L,C,P / S,E,F,G,O,U,custom) and all field/tag datatypes (i,f,Z,A,J nested,H,B int/float, CIGAR, trace, oriented ids, id lists, positions with $, placeholders), plus the virtual segment standing for an undefined identifier, connected to a Gfa or standalone, vlevel 1..3 (decoded or raw strings); x which copy is edited x every edit of a per-value edit catalogue (list append / item assignment, CIGAR operation length := ANY integer, operation code, orientation flip, dict update, nested JSON append, tag set/overwrite/delete, array append); aliasing walk over both value graphs",
    "timeout": {"quick": 400, "thorough": 900}, "parts": {"quick": 16, "thorough": 16}},
 },
}

DOCS = [
 ["H\tVN:Z:1.0\tab:i:1", "H\tab:i:2",
  "S\ta\tACGT\tLN:i:4\tSH:H:AF\tja:J:{\"k\": [1, {\"x\": 2}]}\tfa:B:f,1.5,2.0\tba:B:C,1,2\tzz:Z:hello\tcc:A:x\tff:f:1.5", "S\tb\t*",
  "L\ta\t+\tb\t-\t1M1D2M\tID:Z:l1\tKC:i:3\tjj:J:[1, [2]]", "C\ta\t+\tb\t-\t0\t2M\tjj:J:{\"a\": []}", "P\tp1\ta+,b-\t1M1D2M\tbb:B:c,1,-2",
  "#\tcomment", "L\ta\t-\tzz\t+\t*"],          # (zz is never defined: a virtual segment stands for it)
 ["S\ta\t10\t*\tja:J:[1]", "S\tb\t10\tACGTACGTAC", "E\te1\ta+\tb-\t6\t10$\t6\t10$\t1M1D2M1I\tjj:J:{\"q\": [1]}", "E\te2\ta+\tb+\t0\t3\t0\t3\t1,2",
  "G\tg1\ta+\tb-\t5\t*", "F\ta\tread+\t0\t4\t0\t4$\t2M1I1M1D\tbb:B:C,1", "O\to1\ta+ e1+ b-\tjj:J:[[1]]", "U\tu1\ta e2 o1", "X\tcustom\tfield\txx:J:[1]", "E\te9\ta-\tzz+\t0\t1\t0\t1\t*"],
]
NLINES = max(len(d) for d in DOCS) + 1          # index len(doc): the virtual segment zz (connected only)
MUTABLE = (list, dict, gfapy.OrientedLine, gfapy.CIGAR.Operation, gfapy.FieldArray)

def _walk(v, acc):
  acc.append(v)
  if isinstance(v, (list, tuple)):
    for x in v: _walk(x, acc)
  elif isinstance(v, dict):
    for x in v.values(): _walk(x, acc)
  elif isinstance(v, gfapy.FieldArray):
    for x in v: _walk(x, acc)

def _shared_mutables(a, b):
  wa, wb = [], []
  for v in a._data.values(): _walk(v, wa)
  for v in b._data.values(): _walk(v, wb)
  ids = set(id(x) for x in wa if isinstance(x, MUTABLE))
  return [type(x).__name__ for x in wb if isinstance(x, MUTABLE) and id(x) in ids]

def _edits(line, connected):
  """catalogue of edits applicable to this line: list of (description, callable(n))"""
  out = []
  refs = set(line.__class__.REFERENCE_FIELDS or []) | set(line.__class__.BACKREFERENCE_RELATED_FIELDS or [])
  for fn in list(line.positional_fieldnames) + list(line.tagnames):
    v = line.get(fn)
    locked = connected and fn in refs
    if isinstance(v, gfapy.CIGAR) and len(v) > 0:
      out.append((fn + ": op length", lambda n, v=v: setattr(v[0], "length", n)))
      out.append((fn + ": op code", lambda n, v=v: setattr(v[-1], "code", "X" if v[-1].code != "X" else "M")))
      out.append((fn + ": pop op", lambda n, v=v: v.pop()))
    elif isinstance(v, gfapy.OrientedLine):
      if not locked:
        out.append((fn + ": flip orient", lambda n, v=v: setattr(v, "orient", "-" if v.orient == "+" else "+")))
    elif isinstance(v, dict):
      out.append((fn + ": dict update", lambda n, v=v: v.update({"new": n})))
      for kk, vv in v.items():
        if isinstance(vv, list):
          out.append((fn + ": nested append", lambda n, vv=vv: vv.append(n)))
    elif isinstance(v, gfapy.FieldArray):
      out.append((fn + ": fieldarray append", lambda n, v=v: v.append(n)))
    elif isinstance(v, list):
      if v and isinstance(v[0], gfapy.OrientedLine) and not locked:
        out.append((fn + ": item flip", lambda n, v=v: setattr(v[0], "orient", "-" if v[0].orient == "+" else "+")))
      if not locked and not (v and isinstance(v[0], (gfapy.OrientedLine, gfapy.Line))):
        out.append((fn + ": append", lambda n, v=v: v.append(n)))
        if v:
          out.append((fn + ": item assign", lambda n, v=v: v.__setitem__(0, n)))
          if isinstance(v[-1], list):
            out.append((fn + ": nested append", lambda n, v=v: v[-1].append(n)))
    if fn in line.tagnames:
      out.append((fn + ": delete tag", lambda n, fn=fn: line.delete(fn)))
      if isinstance(v, int):
        out.append((fn + ": set tag", lambda n, fn=fn: line.set(fn, n)))
  out.append(("new tag", lambda n: line.set("nw", n)))
  if line.record_type == "S":
    out.append(("sequence", lambda n: line.set("sequence", "GG")))
  return out

NED = 24

def h_clone(di: int, li: int, connected: bool, vl: int, side: bool, ed: int, n: int) -> bool:
  """
  pre: 0 <= di < 2 and 0 <= li < NLINES and 1 <= vl <= 3 and 0 <= ed < NED
  pre: 0 <= n
  pre: (li + 2 * ed) % NPART == PART
  post: _ == True
  """
  vp.enter("cl")
  di = vp.concretize(di, 0, 1)
  doc = DOCS[di]
  if li > len(doc) or (li == len(doc) and not connected): return True
  li = vp.concretize(li, 0, len(doc))
  level = vp.concretize(vl, 1, 3)
  with NoTracing():
    if connected:
      g = gfapy.Gfa(vlevel=level, version=("gfa1" if di == 0 else "gfa2"))
      for t in doc: g.add_line(t)             # (line by line: the constructor refuses a document with an undefined identifier)
      text = doc[li] if li < len(doc) else None
      if text is None:
        orig = g.segment("zz")
        if not orig.virtual: return False
      elif text.startswith("H\t"):
        orig = g.header                        # the merged header (repeated tags are held as FieldArray)
      else:
        orig = [l for l in g.lines if line_text(l) == text][0]
    else:
      g = None
      orig = gfapy.Line(doc[li], vlevel=level, version=("gfa1" if di == 0 else "gfa2"))
    if level >= 2:
      for fn in list(orig.positional_fieldnames) + list(orig.tagnames): orig.get(fn)      # decode everything
    before_o = str(orig)
    before_g = str(g) if g is not None else None
  c = orig.clone()
  # detached, same written form (references as identifiers), equal
  if c.is_connected() or c.gfa is not None: return False
  if str(c) != before_o: return False
  if not (c == orig): return False
  if c.virtual != orig.virtual: return False
  if str(orig) != before_o: return False
  with NoTracing():
    if _shared_mutables(orig, c): return False
  # edit independence
  target, other = (c, orig) if side else (orig, c)
  eds = _edits(target, connected and target is orig)
  if ed >= len(eds): return True
  desc, fn = eds[vp.concretize(ed, 0, len(eds) - 1)]
  vp.reached("cl", di, li, connected, level, side, desc)
  try:
    fn(n)
  except gfapy.Error:
    pass
  if str(other) != before_o: return False
  if g is not None and side:
    with NoTracing():
      if str(g) != before_g: return False
  return True
