"""C01: parse -> write round trip preserves every record, field and tag."""
import re
from vlib import vp
from vlib.vp import gfapy, NoTracing
from spec import gfa_grammar as G
from spec.observe import canon_text, observe, diff_obs

NPART = vp.NPART
PART = vp.PART
THOROUGH = not vp.QUICK

META = {
 "property": "C01",
 "harnesses": {
  "h_line_field": {"kind": "L",
    "functions": ["Line.__init__", "Construction._initialize_positional_fields/_initialize_tags/_init_field_value", "Field._parse_gfa_field/_parse_gfa_tag",
                  "Writer.__str__/to_list/field_to_s", "Field._to_gfa_field/_to_gfa_tag", "FieldData.get", "every <datatype>.decode/encode"],
    "bounds": "28 (record, focus field) templates covering every positional datatype of every record type (H,#,S,L,C,P / S,E,F,G,O,U,custom) and every tag datatype (A,i,f,Z,J,H,B) x every grammatical string of length <= 1 (quick) / 2 (thorough) over a 20-character alphabet plus up to 5 multi-character literals per datatype (CIGARs, traces, lists, signed/zero-padded numbers, floats with exponents, arrays at range limits, nested JSON) in the focus field x vlevel 0..3: written line has no INVALID marker and the same number of fields, re-parsing gives equal positional values and equal (name, datatype, value) tags, writing is a fixed point, and for non-numeric datatypes the text is identical",
    "timeout": {"quick": 400, "thorough": 900}, "parts": {"quick": 16, "thorough": 16}},
  "h_document": {"kind": "G",
    "functions": ["Gfa.__init__/from_file/read_file/to_file/__str__", "Creators.add_line/process_line_queue", "Collections.lines", "Headers.headers", "Multiline._merge/_split",
                  "link References._process_not_unique"],
    "bounds": "8 documents (4 GFA1, 4 GFA2) covering every record type, multi-tag and repeated-tag header lines, a link given in both complement forms, placeholders, all tag datatypes x entry point in {string, string ending in a newline, list, file with LF, file with CRLF} x vlevel 0..3 x version explicit/auto: canonical written content equals canonical input, nothing flagged INVALID, line count preserved, parse(write(parse(T))) writes the same text, to_file/from_file round trip",
    "timeout": {"quick": 400, "thorough": 900}, "parts": {"quick": 16, "thorough": 16}},
 },
}

ALPHA = ["a", "B", "+", "-", "*", "1", "0", "9", "$", ",", "M", "I", " ", ":", ".", "e", "=", "[", "]", "F"]
NA = len(ALPHA)
# (template, version, datatype of the focus field, numeric?)
TEMPL = [
  ("S\t{}\t*", "gfa1", "segment_name_gfa1", False), ("S\ta\t{}", "gfa1", "sequence_gfa1", False),
  ("L\t{}\t+\tb\t-\t*", "gfa1", "segment_name_gfa1", False), ("L\ta\t{}\tb\t-\t*", "gfa1", "orientation", False),
  ("L\ta\t+\tb\t-\t{}", "gfa1", "alignment_gfa1", True), ("C\ta\t+\tb\t-\t{}\t*", "gfa1", "position_gfa1", True),
  ("P\t{}\ta+,b-\t*", "gfa1", "path_name_gfa1", False), ("P\tp\t{}\t*", "gfa1", "oriented_identifier_list_gfa1", False),
  ("P\tp\ta+,b-,c+\t{}", "gfa1", "alignment_list_gfa1", True), ("#{}", "gfa1", "comment", False),
  ("S\t{}\t5\t*", "gfa2", "identifier_gfa2", False), ("S\ta\t{}\t*", "gfa2", "i", True), ("S\ta\t5\t{}", "gfa2", "sequence_gfa2", False),
  ("E\t{}\ta+\tb-\t0\t1\t0\t1\t*", "gfa2", "optional_identifier_gfa2", False), ("E\te\t{}\tb-\t0\t1\t0\t1\t*", "gfa2", "oriented_identifier_gfa2", False),
  ("E\te\ta+\tb-\t0\t{}\t0\t1\t*", "gfa2", "position_gfa2", True), ("E\te\ta+\tb-\t0\t1\t0\t1\t{}", "gfa2", "alignment_gfa2", True),
  ("G\tg\ta+\tb-\t{}\t*", "gfa2", "i", True), ("G\tg\ta+\tb-\t5\t{}", "gfa2", "optional_integer", True),
  ("F\ta\t{}\t0\t1\t0\t1\t*", "gfa2", "oriented_identifier_gfa2", False), ("O\to\t{}", "gfa2", "oriented_identifier_list_gfa2", False),
  ("U\tu\t{}", "gfa2", "identifier_list_gfa2", False), ("X\t{}\tzz", "gfa2", "generic", False),
  ("S\ta\t*\txx:A:{}", "gfa1", "A", False), ("H\txx:i:{}", "gfa1", "i", True), ("E\te\ta+\tb-\t0\t1\t0\t1\t*\txx:f:{}", "gfa2", "f", True),
  ("L\ta\t+\tb\t-\t*\txx:Z:{}", "gfa1", "Z", False), ("S\ta\t5\t*\txx:H:{}", "gfa2", "H", False), ("U\tu\ta b\txx:B:{}", "gfa2", "B", True),
  ("P\tp\ta+,b-\t*\txx:J:{}", "gfa1", "J", True),
]
NT = len(TEMPL)
MLEN = vp.T(1, 2)
LITS = {
  "segment_name_gfa1": ["seg1", "a-b", "1"], "sequence_gfa1": ["ACGTN", "acgt=."], "orientation": [], "alignment_gfa1": ["12M3I", "1M1D2M", "0M", "007M"],
  "position_gfa1": ["10", "007"], "path_name_gfa1": ["path-1"], "oriented_identifier_list_gfa1": ["a+,b-", "x1+,x2+,x3-"],
  "alignment_list_gfa1": ["1M,2M", "*,*", "3M1I,*"], "comment": [" a comment", "\tx\ty"], "identifier_gfa2": ["id_2"], "i": ["-12", "+7", "0042"],
  "sequence_gfa2": ["ACGT*"], "optional_identifier_gfa2": ["e-1"], "oriented_identifier_gfa2": ["seg9-", "a++"], "position_gfa2": ["10$", "012"],
  "alignment_gfa2": ["1,2,3", "12M1I", "5"], "optional_integer": ["-3", "12"], "oriented_identifier_list_gfa2": ["a+ b-", "x+ e1- y+"],
  "identifier_list_gfa2": ["a b c", "s1 e2"], "generic": ["free text", "a:b:c"], "A": [], "f": ["1.5", "-2e3", ".5", "1E-2", "007.50"],
  "Z": ["hello world", "a:b"], "H": ["AF01", "00FF1A"], "B": ["c,1,-2", "C,255", "I,4294967295", "s,-300,5", "s,-1,128", "i,-1,32768", "c,-128,127", "S,256,0", "I,65536", "s,-129,0", "i,-32769,1", "C,0"],
  "J": ["{\"a\": 1}", "[1, [2]]", "[]", "{\"k\":[1,2]}"],
}

def _mkstr(n, c0, c1, c2):
  k = vp.concretize(n, 0, 3)
  idx = [vp.concretize(c, 0, NA - 1) for c in (c0, c1, c2)][:k]
  with NoTracing():
    return "".join(ALPHA[i] for i in idx)

def _tags(l):
  return sorted((t, l.get_datatype(t), str(l.field_to_s(t))) for t in l.tagnames)

def h_line_field(ti: int, n: int, c0: int, c1: int, c2: int, vl: int, lit: int) -> bool:
  """
  pre: 0 <= ti < NT and 0 <= n <= MLEN and 0 <= vl <= 3 and -1 <= lit < 12
  pre: lit == -1 or (n == 0 and c0 == 0)
  pre: 0 <= c0 < NA and 0 <= c1 < NA and 0 <= c2 < NA
  pre: (n > 0 or c0 == 0) and (n > 1 or c1 == 0) and (n > 2 or c2 == 0)
  pre: (ti + c0) % NPART == PART
  post: _ == True
  """
  vp.enter("lf")
  tmpl, version, dt, numeric = TEMPL[vp.concretize(ti, 0, NT - 1)]
  li = vp.concretize(lit, -1, 11)
  if li >= 0:
    if li >= len(LITS[dt]): return True
    s = LITS[dt][li]
  else:
    s = _mkstr(n, c0, c1, c2)
  level = vp.concretize(vl, 0, 3)
  with NoTracing():
    ok = G.accepts(dt, s)
    if dt == "H": ok = ok and len(s) % 2 == 0
    if dt == "oriented_identifier_list_gfa1" and "," in s and re.search(r"(^|,)[+-]?(,|$)", s): ok = False
    if dt == "i" and tmpl.startswith("S\ta\t{}"): ok = ok       # slen: any integer syntax
    if dt == "B" and ok:
      from harness.c04_lines import _b_in_range
      ok = _b_in_range(s)
  if not ok: return True                      # (acceptance of invalid input: C04 / C07)
  if dt == "J" and level >= 2: return True     # cut: CrossHair's json proxies (see C18); J at levels 0-1 only
  x = tmpl.replace("{}", s)
  if tmpl.startswith("P\tp\ta+,b-,c+"):
    # the number of overlaps must fit the 3 segments
    if s != "*" and s.count(",") not in (1, 2): return True
  l = gfapy.Line(x, vlevel=level, version=version)
  w = str(l)
  vp.reached("lf", ti, s, level)
  if "INVALID" in w: return False
  if len(w.split("\t")) != len(x.split("\t")): return False
  if not numeric and w != x: return False
  l2 = gfapy.Line(vp.plain(w), vlevel=level, version=version)
  if str(l2) != w: return False                # fixed point
  if l2.record_type != l.record_type: return False
  for f in l.positional_fieldnames:
    if str(l.field_to_s(f)) != str(l2.field_to_s(f)): return False
  if _tags(l) != _tags(l2): return False
  # numeric datatypes: the decoded value is preserved (canonical spelling is the documented normalisation)
  if numeric and dt in ("i", "position_gfa1", "optional_integer") and s != "*":
    fields_w, fields_x = w.split("\t"), x.split("\t")
    for a, b in zip(fields_w, fields_x):
      if a != b:
        if int(a.split(":")[-1]) != int(b.split(":")[-1]): return False
  return True

DOCS = [
  ["H\tVN:Z:1.0\tab:i:1", "H\tab:i:2\tcd:Z:x y", "S\ta\tACGT\tLN:i:4\tSH:H:AF01\tfa:B:s,-300,5\tba:B:C,1,2\tcc:A:x\tff:f:1.5", "S\tb\t*", "S\tc\tGG",
   "L\ta\t+\tb\t-\t1M1D2M\tID:Z:l1\tKC:i:3", "L\tb\t+\ta\t-\t2M1I1M\tID:Z:l1\tKC:i:3", "C\tb\t+\tc\t-\t0\t2M", "P\tp1\ta+,b-\t1M1D2M", "#\tcomment"],
  ["S\t1\t*", "S\t2\tAC", "S\t3\t*\tLN:i:9", "L\t1\t+\t2\t+\t*", "L\t2\t-\t1\t-\t*", "L\t2\t+\t3\t-\t0M", "P\tp\t1+,2+,3-\t*", "P\tq\t2+\t*", "# c1", "#c2"],
  ["S\ta\t*\tja:J:{\"k\": [1, {\"x\": 2}]}\tzz:Z:a b", "S\tb\t*", "C\ta\t-\tb\t+\t12\t*\tjj:J:[1, [2]]", "L\ta\t+\ta\t-\t3M"],
  ["H\tTS:i:5", "S\tx\tNNNN\tco:Z:ends with blank ", "# comment with trailing blank ", "S\ty\t*", "L\tx\t+\ty\t+\t2M1I\tMQ:i:3\tNM:i:1", "P\tc\tx+,y+\t2M1I"],
  ["H\tVN:Z:2.0\tTS:i:3", "S\ta\t10\t*", "S\tb\t10\tACGTACGTAC", "S\tc\t10\t*", "E\te1\ta+\tb-\t6\t10$\t6\t10$\t1M1D2M1I", "E\t*\tb-\tc+\t0\t3\t0\t3\t*",
   "E\te3\ta-\tc-\t2\t5\t3\t6\t1,2\tTS:i:3", "G\tg1\ta+\tc-\t5\t*", "G\t*\ta-\tb+\t10\t2", "F\ta\tread+\t0\t4\t0\t4$\t2M1I1M1D", "O\to1\ta+ b- c+",
   "O\to2\to1- a-", "U\tu1\ta e1 o1 g1", "U\t*\tu1 c", "X\tcustom\tfield\txx:i:1", "#\tc"],
  ["S\t1\t8\t*\tRC:i:5\tba:B:c,-1,1", "S\t2\t8\t*", "E\t10\t1+\t2+\t4\t8$\t0\t4\t1D3M1I", "O\t20\t1+ 10+ 2+", "O\t20\t2+", "U\t30\t20", "U\t30\t10\txx:Z:t"],
  ["S\ta\t5\tAAAAA\tjj:J:[\"x\", 1.5]", "S\tb\t5\t*", "F\tb\tr-\t1\t3\t0\t2\t*\tTS:i:2", "Y\tq", "Z\tfield ending in blank "],
  ["H\taa:i:1", "H\taa:i:2", "H\taa:i:3\tbb:f:0.5", "H\tca:A:c\thx:H:1AF0", "S\ts\t1\tA"],        # (header tags whose datatype is not the default of their value)
]
ND = len(DOCS)
ENTRY = ["string", "string_nl", "list", "file_lf", "file_crlf"]

# files are written at import time (CrossHair's audit wall only allows reading during analysis)
import atexit, os, shutil, tempfile
_TMP = tempfile.mkdtemp(prefix="verif-c01-")
atexit.register(shutil.rmtree, _TMP, True)
_FILES = {}
for _d, _doc in enumerate(DOCS):
  for _k, _nl in (("file_lf", "\n"), ("file_crlf", "\r\n")):
    _p = os.path.join(_TMP, "d%d_%s.gfa" % (_d, _k))
    with open(_p, "w", newline="") as _f:
      _f.write(_nl.join(_doc) + _nl)
    _FILES[(_d, _k)] = _p

def _canon_doc(lines):
  """documented normalisations: one tag per H line, a link in both complement forms once, records grouped by
  type (order-free comparison), multi-line groups merged"""
  out, groups = [], {}
  for t in lines:
    f = t.split("\t")
    if f[0] == "H":
      out += ["H\t" + x for x in f[1:]]
    elif f[0] in ("O", "U") and f[1] != "*":
      k = (f[0], f[1])
      if k in groups:
        groups[k][2] = groups[k][2] + " " + f[2]
        groups[k] += [x for x in f[3:] if x not in groups[k][3:]]
      else:
        groups[k] = list(f)
    elif f[0].startswith("#"):
      out.append("#\t" + t[1:].lstrip() if False else t)
    else:
      out.append(t)
  out += ["\t".join(v) for v in groups.values()]
  return sorted(set(canon_text(t) for t in out if canon_text(t).startswith("L\t"))) + \
         sorted(canon_text(t) for t in out if not canon_text(t).startswith("L\t"))

def _strip_json(doc):
  return ["\t".join(f for f in l.split("\t") if not (len(f) > 4 and f[2:5] == ":J:")) for l in doc]

def h_document(di: int, en: int, vl: int, explicit: bool) -> bool:
  """
  pre: 0 <= di < ND and 0 <= en < 5 and 0 <= vl <= 3
  pre: (di * 5 + en) % NPART == PART
  post: _ == True
  """
  vp.enter("doc")
  d = vp.concretize(di, 0, ND - 1)
  doc = DOCS[d]
  level = vp.concretize(vl, 0, 3)
  entry = ENTRY[vp.concretize(en, 0, 4)]
  if level >= 2 and entry.startswith("file") is False:
    doc = _strip_json(doc)                     # cut: CrossHair's json proxies; J tags travel at levels 0-1 and via files
  version = None
  if explicit:
    version = "gfa1" if d < 4 else "gfa2"
  if entry == "string": g = gfapy.Gfa("\n".join(doc), vlevel=level, version=version)
  elif entry == "string_nl": g = gfapy.Gfa("\n".join(doc) + "\n", vlevel=level, version=version)
  elif entry == "list": g = gfapy.Gfa(list(doc), vlevel=level, version=version)
  else:
    if level >= 2: return True                 # (files carry the J tags: levels 0-1 only, see above)
    doc = DOCS[d]
    g = gfapy.Gfa.from_file(_FILES[(d, entry)], vlevel=level, version=version)
  t = str(g)
  vp.reached("doc", d, entry, level, explicit)
  if "INVALID" in t: return False
  with NoTracing():
    written = t.split("\n")
    want = _canon_doc(doc)
    if _canon_doc(written) != want: return False
    if len(written) != len(want): return False               # nothing added, nothing dropped
    if len(g.lines) != len(want): return False
  # writing is a fixed point
  g2 = gfapy.Gfa(vp.plain(t), vlevel=level, version=version)
  return str(g2) == t
