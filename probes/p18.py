import msgstub; msgstub.install()
import gfapy, vshim
from crosshair.tracers import NoTracing

BASE = ["S\ts1\t10\t*","S\ts2\t10\t*","S\ts3\t10\t*",
        "E\te1\ts1+\ts2+\t5\t10$\t0\t5\t*","E\te2\ts1+\ts3-\t5\t10$\t5\t10$\t*",
        "G\tg1\ts2+\ts3+\t5\t*","F\ts1\tr1+\t0\t5\t0\t5\t*",
        "O\to1\ts1+ s2+","U\tu1\ts1 e2 g1"]
NAMES = ["s1","s2","s3","e1","e2","g1","o1","u1","zz"]
POOL = ["S\ts4\t10\t*","E\te3\ts4+\ts1+\t5\t10$\t0\t5\t*","U\tu1\ts3","O\to2\to1- s9+","E\te1\ts1+\ts2+\t0\t1\t0\t1\t*"]

def invariant(g):
  lines = g.lines
  ids = set(id(l) for l in lines)
  for l in lines:
    if l.record_type in "H#": continue
    if l.gfa is not g: return False
    for k, v in l._refs.items():
      for x in v:
        if isinstance(x, gfapy.OrientedLine): x = x.line
        if id(x) not in ids and not getattr(x, "virtual", False): return False
    for f in l.__class__.REFERENCE_FIELDS:
      v = l.get(f)
      vs = v if isinstance(v, list) else [v]
      for x in vs:
        if isinstance(x, gfapy.OrientedLine): x = x.line
        if isinstance(x, str): return False
        if id(x) not in ids and not x.virtual: return False
  return True

def step(g, op, a, b):
  if op == 0: g.rm(NAMES[a])
  elif op == 1: g.line(NAMES[a]).name = NAMES[b]
  else: g.add_line(POOL[a % len(POOL)])

def hist2(op1: int, a1: int, b1: int, op2: int, a2: int, b2: int) -> bool:
  """
  pre: 0 <= op1 < 3 and 0 <= op2 < 3
  pre: 0 <= a1 < 9 and 0 <= b1 < 9 and 0 <= a2 < 9 and 0 <= b2 < 9
  post: _ == True
  """
  with NoTracing():
    g = gfapy.Gfa(BASE)
  for (op,a,b) in [(op1,a1,b1),(op2,a2,b2)]:
    try:
      step(g, op, a, b)
    except gfapy.Error:
      pass
    except AttributeError:
      if op == 1: pass   # line() returned None
      else: raise
    with NoTracing():
      if not invariant(g): return False
  return True
