import gfapy
for l in ["L\ts1\t+\ts2\t-\t2P1M\tID:Z:e1", "L\ts1\t+\ts2\t+\t1M1D2M\tID:Z:e1", "L\ts1\t-\ts2\t+\t1M1D2M\tID:Z:e1","L\ts1\t-\ts2\t-\t1M1I2M\tID:Z:e1","L\ts1\t+\ts2\t-\t1M1I2M\tID:Z:e1", "C\ts1\t+\ts2\t-\t3\t1M1I2M\tID:Z:e1","C\ts1\t-\ts2\t+\t3\t1M1D2M\tID:Z:e1"]:
  g = gfapy.Gfa(["S\ts1\t*\tLN:i:10","S\ts2\t*\tLN:i:11", l])
  g2 = g.to_gfa2()
  print(l.replace("\t"," "), "=>", [str(x).replace("\t"," ") for x in g2.edges], "=>", [str(x).replace("\t"," ") for x in g2.to_gfa1().edges])
