import msgstub; msgstub.install()
import gfapy, vshim, re

def seg_roundtrip(s: str, vl: int) -> bool:
  """
  pre: len(s) <= 3 and "\\n" not in s
  pre: 0 <= vl <= 3
  post: _ == True
  """
  if not re.fullmatch(r"[!-)+-<>-~][!-~]*", s): return True
  if re.search(r"[+-],", s): return True
  x = "S\t" + s + "\t*\txx:Z:a"
  l = gfapy.Line(x, vlevel=vl)
  w = str(l)
  if w != x: return False
  l2 = gfapy.Line(w, vlevel=vl)
  return str(l2) == w and l2.name == s and l2.get("xx") == "a"

def z_tag_roundtrip(s: str, vl: int) -> bool:
  """
  pre: len(s) <= 3 and "\\n" not in s
  pre: 0 <= vl <= 3
  post: _ == True
  """
  if not re.fullmatch(r"[ !-~]+", s): return True
  x = "S\ta\t*\txx:Z:" + s
  l = gfapy.Line(x, vlevel=vl)
  w = str(l)
  if w != x: return False
  l2 = gfapy.Line(w, vlevel=vl)
  return str(l2) == w and l2.get("xx") == s and l2.get_datatype("xx") == "Z"
