import gfapy
from typing import List, Tuple

CODES = ["M","I","D","P","=","X","H"]

def cigar_complement_pure(ops: List[Tuple[int,int]]) -> bool:
  """
  pre: 1 <= len(ops) <= 3
  pre: all(0 <= c < 7 and 0 <= n <= 1000 for (c,n) in ops)
  post: _ == True
  """
  cig = gfapy.CIGAR([gfapy.CIGAR.Operation(n, CODES[c]) for (c,n) in ops])
  before = str(cig)
  comp = cig.complement()
  return str(cig) == before

def cigar_complement_lengths(ops: List[Tuple[int,int]]) -> bool:
  """
  pre: 1 <= len(ops) <= 3
  pre: all(0 <= c < 7 and 0 <= n <= 1000 for (c,n) in ops)
  post: _ == True
  """
  cig = gfapy.CIGAR([gfapy.CIGAR.Operation(n, CODES[c]) for (c,n) in ops])
  r, q = cig.length_on_reference(), cig.length_on_query()
  comp = gfapy.CIGAR([gfapy.CIGAR.Operation(n, CODES[c]) for (c,n) in ops]).complement()
  return comp.length_on_reference() == q and comp.length_on_query() == r
