import msgstub; msgstub.install()
import gfapy, vshim
from crosshair.tracers import NoTracing

DOC = ["S\ts1\t*","S\ts2\t*","L\ts1\t+\ts2\t-\t*","P\tp1\ts1+,s2-\t*","C\ts1\t+\ts2\t+\t0\t*"]

def canon_link(t):
  f = t.split("\t")
  if f[0] != "L": return t
  inv = {"+":"-","-":"+"}
  a = (f[1],f[2],f[3],f[4]); b = (f[3],inv[f[4]],f[1],inv[f[2]])
  if b < a: f[1],f[2],f[3],f[4] = b
  return "\t".join(f)

def observe(g):
  out = {"version": g.version, "lines": sorted(canon_link(str(l)) for l in g.lines),
         "names": sorted(g.names), "virtual": sorted(str(l) for l in g.lines if l.virtual)}
  refs = {}
  for s in g.segments:
    for k, v in s._refs.items():
      refs[(s.name,k)] = sorted(canon_link(str(x)) for x in v)
  out["refs"] = refs
  return out

def perm_from(code, n):
  idx = list(range(n)); out = []
  for k in range(n, 0, -1):
    out.append(idx.pop(code % k)); code //= k
  return out

with NoTracing():
  REF = observe(gfapy.Gfa(DOC))

def order_indep(code: int) -> bool:
  """
  pre: 0 <= code < 120
  post: _ == True
  """
  p = perm_from(code, 5)
  g = gfapy.Gfa([DOC[i] for i in p])
  with NoTracing():
    return observe(g) == REF
