import gfapy, vshim
from crosshair.tracers import NoTracing
CODES = ["M","I","D","P"]

def link_roundtrip(p1: bool, p2: bool, ln1: int, ln2: int, c1: int, n1: int, c2: int, n2: int) -> bool:
  """
  pre: 1 <= ln1 <= 60 and 1 <= ln2 <= 60
  pre: 0 <= c1 < 4 and 0 <= c2 < 4 and 1 <= n1 <= 9 and 1 <= n2 <= 9
  post: _ == True
  """
  o1 = "+" if p1 else "-"
  o2 = "+" if p2 else "-"
  g = gfapy.Gfa(version="gfa1")
  s1 = gfapy.line.segment.GFA1({"name":"s1","sequence":gfapy.Placeholder(),"LN":ln1}, version="gfa1")
  s2 = gfapy.line.segment.GFA1({"name":"s2","sequence":gfapy.Placeholder(),"LN":ln2}, version="gfa1")
  g.add_line(s1); g.add_line(s2)
  cig = gfapy.CIGAR([gfapy.CIGAR.Operation(n1, CODES[c1]), gfapy.CIGAR.Operation(n2, CODES[c2])])
  ref, qry = cig.length_on_reference(), cig.length_on_query()
  if ref > ln1 or qry > ln2:
    return True
  l = gfapy.line.edge.Link({"from_segment":"s1","from_orient":o1,"to_segment":"s2","to_orient":o2,"overlap":cig,"ID":"e1"}, version="gfa1")
  g.add_line(l)
  before = str(l)
  try:
    g2 = g.to_gfa2()
    g1 = g2.to_gfa1()
  except gfapy.Error:
    return False
  after = [str(x) for x in g1.dovetails]
  return after == [before]
