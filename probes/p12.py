import gfapy
from crosshair.tracers import NoTracing

def mkpos(v, last):
  return gfapy.LastPos(v) if last else v

def oracle(o1,b1,e1,l1,o2,b2,e2,l2):
  # returns (key_for_s1, key_for_s2)
  def kind(b, e, last):
    if b == 0 and last and e != 0: return "whole"   # refine later
    if b == 0: return "pfx"
    if last: return "sfx"
    return "int"
  k1 = kind(b1,e1,l1); k2 = kind(b2,e2,l2)
  if k1 == "whole" or k2 == "whole":
    if k1 == "whole" and k2 == "whole":
      return ("edges_to_contained","edges_to_containers")
    if k1 == "whole":
      return ("edges_to_containers","edges_to_contained")
    return ("edges_to_contained","edges_to_containers")
  def end_of(k, o):  # which end of the segment is involved
    if k == "pfx": return "L"
    if k == "sfx": return "R"
    return None
  # oriented role: pfx on + = prefix of oriented; pfx on - = suffix of oriented
  def orole(k,o):
    if k == "int": return None
    if (k == "pfx") == (o == "+"): return "P"
    return "S"
  r1, r2 = orole(k1,o1), orole(k2,o2)
  if r1 and r2 and r1 != r2:
    return ("dovetails_"+end_of(k1,o1), "dovetails_"+end_of(k2,o2))
  return ("internals","internals")

def e_classification(p1: bool, p2: bool, b1: int, e1: int, l1: bool, b2: int, e2: int, l2: bool) -> bool:
  """
  pre: 0 <= b1 <= e1 and 0 <= b2 <= e2
  pre: e1 > 0 and e2 > 0
  post: _ == True
  """
  o1 = "+" if p1 else "-"
  o2 = "+" if p2 else "-"
  with NoTracing():
    g = gfapy.Gfa(version="gfa2")
    g.add_line("S\ts1\t100\t*")
    g.add_line("S\ts2\t100\t*")
  e = gfapy.line.edge.GFA2({"eid":"e1","sid1":gfapy.OrientedLine("s1",o1),"sid2":gfapy.OrientedLine("s2",o2),
       "beg1":b1,"end1":mkpos(e1,l1),"beg2":b2,"end2":mkpos(e2,l2),"alignment":gfapy.AlignmentPlaceholder()}, version="gfa2")
  g.add_line(e)
  s1 = g.segment("s1"); s2 = g.segment("s2")
  k1 = [k for k,v in s1._refs.items() if any(x is e for x in v)]
  k2 = [k for k,v in s2._refs.items() if any(x is e for x in v)]
  exp = oracle(o1,b1,e1,l1,o2,b2,e2,l2)
  return k1 == [exp[0]] and k2 == [exp[1]]
