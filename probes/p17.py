import msgstub; msgstub.install()
import gfapy
NA = gfapy.NumericArray

def compute_subtype_minimal(x: int, y: int) -> bool:
  """
  post: _ == True
  """
  a = [x, y]
  arr = NA(a)
  mn = x if x < y else y
  mx = y if x < y else x
  try:
    st = arr.compute_subtype()
  except gfapy.ValueError:
    return (mn < 0 and (mn < -(2**31) or mx >= 2**31)) or (mn >= 0 and mx >= 2**32)
  lo, hi = NA.SUBTYPE_RANGE[st]
  if not (lo <= mn and mx < hi): return False
  fam = NA.SIGNED_INT_SUBTYPE if mn < 0 else NA.UNSIGNED_INT_SUBTYPE
  if st not in fam: return False
  for t in fam[:fam.index(st)]:
    l2, h2 = NA.SUBTYPE_RANGE[t]
    if l2 <= mn and mx < h2: return False
  return True
