import z3, time
try:
  import re._parser as sre_parse, re._constants as C
except ImportError:
  import sre_parse, sre_constants as C

def cls_to_re(items):
  negate = False; parts = []
  for op, av in items:
    if op == C.NEGATE: negate = True
    elif op == C.LITERAL: parts.append(z3.Re(chr(av)))
    elif op == C.RANGE: parts.append(z3.Range(chr(av[0]), chr(av[1])))
    else: raise NotImplementedError(op)
  r = parts[0] if len(parts)==1 else z3.Union(*parts)
  if negate:
    r = z3.Intersect(z3.AllChar(z3.ReSort(z3.StringSort())), z3.Complement(r))
  return r

def tr(seq):
  out = []
  for op, av in seq:
    if op == C.LITERAL: out.append(z3.Re(chr(av)))
    elif op == C.IN: out.append(cls_to_re(av))
    elif op == C.MAX_REPEAT:
      lo, hi, sub = av; r = tr(sub)
      if hi == C.MAXREPEAT:
        out.append(z3.Star(r) if lo == 0 else (z3.Plus(r) if lo == 1 else z3.Concat(*([r]*lo+[z3.Star(r)]))))
      else: out.append(z3.Loop(r, lo, hi))
    elif op == C.SUBPATTERN: out.append(tr(av[3]))
    elif op == C.BRANCH: out.append(z3.Union(*[tr(b) for b in av[1]]))
    elif op == C.AT:
      if av == C.AT_BEGINNING: continue
      if av == C.AT_END: out.append(z3.Option(z3.Re("\n"))); continue  # '$' : end or before final \n  (only valid at pattern end)
      raise NotImplementedError(av)
    elif op == C.ANY: out.append(z3.Intersect(z3.AllChar(z3.ReSort(z3.StringSort())), z3.Complement(z3.Re("\n"))))
    else: raise NotImplementedError(op)
  if not out: return z3.Re("")
  return out[0] if len(out)==1 else z3.Concat(*out)

def match_re(pat):
  p = list(sre_parse.parse(pat))
  if p and p[-1] == (C.AT, C.AT_END):
    return tr(p)
  return z3.Concat(tr(p), z3.Full(z3.ReSort(z3.StringSort())))

impl = r"^[!-)+-<>-~][!-~]*$"
s = z3.String("s")
spec = z3.Concat(z3.Union(z3.Range("!",")"), z3.Range("+","<"), z3.Range(">","~")), z3.Star(z3.Range("!","~")))
t=time.time()
sol = z3.Solver()
sol.add(z3.InRe(s, match_re(impl)) != z3.InRe(s, spec))
r = sol.check(); print(r, time.time()-t)
if str(r)=="sat": print(repr(sol.model()[s].as_string()))
sol = z3.Solver(); t=time.time()
sol.add(z3.InRe(s, match_re(impl)) != z3.InRe(s, z3.Concat(spec, z3.Option(z3.Re("\n")))))
print(sol.check(), time.time()-t)
