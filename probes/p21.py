import msgstub; msgstub.install()
import gfapy, vshim
from crosshair.tracers import NoTracing

def mult(factor: int, rc: int, kc: int, p1: bool, p2: bool) -> bool:
  """
  pre: 0 <= factor <= 3
  pre: 0 <= rc <= 99 and 0 <= kc <= 99
  post: _ == True
  """
  for f in range(4):
    if factor == f: factor = f
  o1 = "+" if p1 else "-"; o2 = "+" if p2 else "-"
  with NoTracing():
    g = gfapy.Gfa(version="gfa1")
    g.add_line("S\ta\t*"); g.add_line("S\tb\t*")
  x = gfapy.line.segment.GFA1({"name":"x","sequence":"ACGT","RC":rc}, version="gfa1")
  g.add_line(x)
  l1 = gfapy.line.edge.Link({"from_segment":"x","from_orient":o1,"to_segment":"a","to_orient":"+","overlap":gfapy.AlignmentPlaceholder(),"KC":kc}, version="gfa1")
  l2 = gfapy.line.edge.Link({"from_segment":"b","from_orient":"+","to_segment":"x","to_orient":o2,"overlap":gfapy.AlignmentPlaceholder()}, version="gfa1")
  g.add_line(l1); g.add_line(l2)
  g.multiply("x", factor)
  names = g.segment_names
  if factor == 0:
    return "x" not in names and len(g.dovetails) == 0
  copies = [n for n in names if n == "x" or n.startswith("x*")]
  if len(copies) != factor: return False
  for c in copies:
    s = g.segment(c)
    if s.sequence != "ACGT": return False
    if s.RC != rc // factor: return False
    if len(s.dovetails) != 2: return False
    for d in s.dovetails:
      if d.other(s).name == "a" and d.KC != kc // factor: return False
  return True
