import gfapy, vshim

def tag_only_gfapy_errors(tag: str) -> bool:
  """
  pre: len(tag) <= 7
  post: _ == True
  """
  try:
    l = gfapy.Line("S\ta\t*\t" + tag)
    str(l)
    l.validate()
  except gfapy.Error:
    return True
  return True

def json_only_gfapy_errors(v: str) -> bool:
  """
  pre: len(v) <= 4
  post: _ == True
  """
  try:
    l = gfapy.Line("S\ta\t*\txx:J:" + v)
    l.get("xx")
  except gfapy.Error:
    return True
  return True

def segname_valid_iff_spec(name: str) -> bool:
  """
  pre: len(name) <= 3
  post: _ == True
  """
  import re
  def spec(n):
    if len(n) == 0: return False
    for i, c in enumerate(n):
      o = ord(c)
      if not (33 <= o <= 126): return False
    if n[0] in "*=" : return False
    for i in range(len(n)-1):
      if n[i] in "+-" and n[i+1] == ",": return False
    return True
  try:
    gfapy.Line("S\t" + name + "\t*")
    ok = True
  except gfapy.Error:
    ok = False
  return ok == spec(name)
