import msgstub; msgstub.install()
import gfapy
from gfapy.field import integer as fint

def spec_int(s):
  if len(s) == 0: return False
  i = 0
  if s[0] in "+-": i = 1
  if i == len(s): return False
  for c in s[i:]:
    if not ("0" <= c <= "9"): return False
  return True

def int_decode_iff_spec(s: str) -> bool:
  """
  pre: len(s) <= 3
  post: _ == True
  """
  try:
    v = fint.decode(s)
    ok = True
  except gfapy.Error:
    ok = False
  return ok == spec_int(s)
