import gfapy
from gfapy.field import integer as fint, position_gfa2 as fpos, float as ffloat

def check_int_validate_vs_decode(s: str) -> bool:
  """
  pre: len(s) <= 3
  post: _ == True
  """
  # if decode accepts, validate_encoded must accept
  try:
    fint.decode(s)
  except gfapy.Error:
    return True
  try:
    fint.validate_encoded(s)
  except gfapy.Error:
    return False
  return True
