import gfapy, vshim

DOC = "S\ts1\t*\tLN:i:4\nS\ts2\tACGT\nL\ts1\t+\ts2\t-\t2M\txx:J:[1]\nP\tp1\ts1+,s2-\t2M"

def mut(p: int, c: str) -> bool:
  """
  pre: 0 <= p < 20
  pre: len(c) == 1
  post: _ == True
  """
  for i in range(20):
    if p == i: p = i
  t = DOC[:p] + c + DOC[p+1:]
  try:
    g = gfapy.Gfa(t)
    str(g)
    g.validate()
  except gfapy.Error:
    return True
  return True
