import gfapy, itertools, traceback, collections
def invariant(g):
  errs = []
  lines = g.lines
  ids = {id(l): l for l in lines}
  for rt, d in g._records.items():
    if rt == "H": continue
    for k, v in d.items():
      vs = v.values() if isinstance(v, dict) else [v]
      for l in vs:
        ids[id(l)] = l
  for l in list(ids.values()):
    if l.record_type in "H#": continue
    if l.gfa is not g: errs.append(("owner", str(l)))
    for k, v in l._refs.items():
      for x in v:
        if isinstance(x, gfapy.OrientedLine): x = x.line
        if isinstance(x, str): errs.append(("strref", l.name, k)); continue
        if id(x) not in ids: errs.append(("stale_backref", str(l.name), k, str(x)))
    for f in l.__class__.REFERENCE_FIELDS:
      v = l.get(f)
      vs = v if isinstance(v, list) else [v]
      for x in vs:
        if isinstance(x, gfapy.OrientedLine): x = x.line
        if isinstance(x, (gfapy.CIGAR, gfapy.Placeholder)): continue
        if isinstance(x, str): errs.append(("strfield", str(l), f)); continue
        if id(x) not in ids: errs.append(("stale_ref", str(l), f, str(x)))
  return errs

G2 = ["S\ts1\t10\t*","S\ts2\t10\t*","S\ts3\t10\t*",
      "E\te1\ts1+\ts2+\t5\t10$\t0\t5\t*","E\te2\ts1+\ts3-\t5\t10$\t5\t10$\t*","E\te3\ts2+\ts3+\t2\t4\t0\t10$\t*",
      "G\tg1\ts2+\ts3+\t5\t*","F\ts1\tr1+\t0\t5\t0\t5\t*",
      "O\to1\ts1+ s2+","U\tu1\ts1 e2 g1","U\tu2\tu1 o1","O\to2\to1+ e3+"]
G1 = ["S\ts1\t*","S\ts2\t*","S\ts3\t*","L\ts1\t+\ts2\t+\t*","L\ts1\t+\ts3\t-\t*\tID:Z:l2","C\ts1\t+\ts3\t+\t0\t*","C\ts1\t-\ts2\t+\t0\t*",
      "P\tp1\ts1+,s2+\t*","P\tp2\ts3+,s1-\t*"]
for doc in (G1, G2):
  g0 = gfapy.Gfa(doc)
  names = list(g0.names)
  print("== base invariant", invariant(g0))
  for n in names:
    g = gfapy.Gfa(doc)
    try:
      g.rm(n)
      e = invariant(g)
      txt = str(g)
      try:
        gfapy.Gfa(txt); rp = "ok"
      except Exception as ex:
        rp = "REPARSE-FAIL " + type(ex).__name__
      print("rm", n, "->", e[:3], rp, "| remaining:", sorted(g.names))
    except Exception as ex:
      print("rm", n, "EXC", type(ex).__name__, str(ex)[:80])
