import gfapy
def show(name, doc):
  print("==", name)
  try:
    g = gfapy.Gfa(doc)
    print(" paths:", [[str(e) for e in p] for p in g.linear_paths()])
    g.merge_linear_paths()
    print(" merged:"); print("   " + str(g).replace("\n","\n   "))
  except Exception as ex:
    print(" EXC", type(ex).__name__, str(ex)[:100].replace("\n"," | "))
S = ["S\ta\tAAAC","S\tb\tACGG","S\tc\tGGTT","S\td\tTTCA"]
show("chain a+b+c", S[:3]+["L\ta\t+\tb\t+\t2M","L\tb\t+\tc\t+\t2M"])
show("chain mixed orient", S[:3]+["L\ta\t+\tb\t+\t2M","L\tc\t-\tb\t-\t2M"])
show("cycle", S[:3]+["L\ta\t+\tb\t+\t*","L\tb\t+\tc\t+\t*","L\tc\t+\ta\t+\t*"])
show("self loop only", S[:1]+["L\ta\t+\ta\t+\t*"])
show("chain end hairpin", S[:2]+["L\ta\t+\tb\t+\t2M","L\tb\t+\tb\t-\t*"])
show("branch", S+["L\ta\t+\tb\t+\t2M","L\ta\t+\tc\t+\t*","L\tc\t+\td\t+\t2M"])
show("two chains share junction", S+["L\ta\t+\tb\t+\t2M","L\tb\t+\tc\t+\t2M","L\tb\t+\td\t+\t*"])
