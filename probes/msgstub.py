"""Import hook: load modules under /repo/gfapy with the message expressions of
`raise X(<expr>)` statements replaced by a constant (stub mode)."""
import ast, sys, importlib.abc, importlib.machinery, os

ROOT = os.environ.get("VERIF_REPO", "/repo") + "/gfapy"

class _Stub(ast.NodeTransformer):
  def visit_Raise(self, node):
    self.generic_visit(node)
    exc = node.exc
    if isinstance(exc, ast.Call) and exc.args:
      # keep callee, replace message args by constant
      exc.args = [ast.Constant(value="<msg>")]
      exc.keywords = []
    return node

class _Loader(importlib.machinery.SourceFileLoader):
  def source_to_code(self, data, path, *, _optimize=-1):
    tree = ast.parse(data, filename=path)
    tree = _Stub().visit(tree)
    ast.fix_missing_locations(tree)
    return compile(tree, path, "exec", dont_inherit=True, optimize=_optimize)

class _Finder(importlib.abc.MetaPathFinder):
  def find_spec(self, fullname, path, target=None):
    if fullname != "gfapy" and not fullname.startswith("gfapy."):
      return None
    spec = importlib.machinery.PathFinder.find_spec(fullname, path)
    if spec is None or not spec.origin or not spec.origin.startswith(ROOT):
      return spec
    spec.loader = _Loader(fullname, spec.origin)
    return spec

def install():
  sys.dont_write_bytecode = True
  sys.meta_path.insert(0, _Finder())
