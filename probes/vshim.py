import functools, gfapy, inspect, pkgutil, importlib

def _plain(func, kw):
  def plain(self, *a, **k):
    kk = dict(kw); kk.update(k)
    return func(self, *a, **kk)
  return plain

def unpartial():
  seen = set()
  def walk(cls):
    if cls in seen or not cls.__module__.startswith('gfapy'): return
    seen.add(cls)
    for name, v in list(cls.__dict__.items()):
      if isinstance(v, functools.partialmethod):
        setattr(cls, name, _plain(v.func, v.keywords))
    for b in cls.__bases__: walk(b)
    for s in cls.__subclasses__(): walk(s)
  walk(gfapy.Line)
unpartial()
