import gfapy
from typing import List, Tuple

def snapshot(g):
  out = []
  for l in g.lines:
    out.append(str(l))
  return out

def refs_closed(g):
  lines = g.lines
  ids = set(id(l) for l in lines)
  for s in g.segments:
    for k, v in s._refs.items():
      for l in v:
        if id(l) not in ids: return False
        if l.gfa is not g: return False
  for e in g.edges:
    for f in ["from_segment","to_segment"]:
      t = e.get(f)
      if isinstance(t, str): return False
      if g.segment(t.name) is not t: return False
      # mirrored
      if not any(x is e for x in t.all_references): return False
  return True

def rm_keeps_closed(o1: bool, o2: bool, o3: bool, o4: bool, a: int, b: int, victim: int) -> bool:
  """
  pre: 0 <= a < 3 and 0 <= b < 3 and 0 <= victim < 3
  post: _ == True
  """
  names = ["s1","s2","s3"]
  def o(x): return "+" if x else "-"
  g = gfapy.Gfa(version="gfa1")
  for n in names:
    g.add_line("S\t%s\t*" % n)
  try:
    g.add_line("L\ts1\t%s\t%s\t%s\t*" % (o(o1), names[a], o(o2)))
    g.add_line("L\ts1\t%s\t%s\t%s\t*" % (o(o3), names[b], o(o4)))
  except gfapy.NotUniqueError:
    return True
  try:
    g.rm(names[victim])
  except gfapy.Error:
    return True
  return refs_closed(g)
