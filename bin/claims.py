NOT_YET = {}
CLAIMS["C12"] = dict(
  text="Bounded symbolic model checking of the real code: CIGAR.complement laws (involution, reference/query length exchange, receiver untouched) for every operation list of <=3 (quick) / <=4 (thorough) operations over {M,I,D,P,=,X,H} with unbounded integer lengths; link-level and graph-level laws on symbolic orientations/CIGARs/arrival orders. Every path of each harness is exhausted by CrossHair ('Confirmed over all paths'), z3 deciding each branch.",
  note="Bounds as listed per harness in the evidence; CrossHair's builtin models trusted; S/N operations outside the claim (as the property states).",
  technique="symbolic execution of the real Python code (CrossHair + z3), path exhaustion within bounds, native replay of counterexamples")
