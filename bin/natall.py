import sys,os; sys.path.insert(0,'/verif'); os.environ['VERIF_NATIVE']='1'
import importlib, itertools, inspect
modname, fn = sys.argv[1], sys.argv[2]
m = importlib.import_module('harness.'+modname)
f = getattr(m, fn)
ranges = [(range(*[eval(x, vars(m)) for x in r.split(':')])) for r in sys.argv[3:]]
n=bad=0
for args in itertools.product(*ranges):
  n+=1
  try:
    ok = f(*args)
  except Exception as e:
    ok = False; print("EXC", args, type(e).__name__, str(e)[:150])
  if not ok:
    bad+=1
    if bad<=25: print('FAIL',args)
print(n,bad)
