"""usage: whyfail.py <module> <function> <args...> : prints the harness line that returned False"""
import sys, os; sys.path.insert(0, '/verif'); os.environ['VERIF_NATIVE'] = '1'
import importlib, linecache
m = importlib.import_module('harness.' + sys.argv[1]); f = getattr(m, sys.argv[2])
args = [eval(a) for a in sys.argv[3:]]
last = {}
def tr(frame, ev, arg):
  if frame.f_code.co_filename.startswith('/verif/harness'):
    def loc(frame, ev, arg):
      if ev == 'line' and not linecache.getline(frame.f_code.co_filename, frame.f_lineno).strip().startswith('with '): last[frame.f_code.co_name] = frame.f_lineno
      if ev == 'return' and arg is False:
        print("  %s returned False at line %d: %s" % (frame.f_code.co_name, last.get(frame.f_code.co_name, 0),
              linecache.getline(frame.f_code.co_filename, last.get(frame.f_code.co_name, 0)).strip()))
      return loc
    return loc
sys.settrace(tr)
try:
  print(f(*args))
except Exception as e:
  import traceback; traceback.print_exc()
