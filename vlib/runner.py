"""Job scheduling, verdict parsing, native replay, known findings, evidence.

Runs under python3-vt (tooling venv: crosshair-tool, z3).  gfapy itself is
stdlib-only, so the harness processes import it straight from $VERIF_REPO.
"""
import ast, json, os, re, shutil, subprocess, sys, tempfile, time, glob
from concurrent.futures import ThreadPoolExecutor

VERIF = os.path.dirname(os.path.dirname(os.path.abspath(__file__)))
REPO = os.environ.get("VERIF_REPO", "/repo")
PY_VT = os.environ.get("VERIF_PY_VT") or shutil.which("python3-vt") or "/opt/veriftools/pyvenv/bin/python"
PY_NATIVE = os.environ.get("VERIF_PY_NATIVE", "/venv/bin/python")
NCPU = int(os.environ.get("VERIF_JOBS", str(os.cpu_count() or 4)))
EXIT_HARNESS_ERROR = 3
# evidence is only (re)written for the real tree; runs against a scratch copy
# (seeded mutants, VERIF_REPO=...) write theirs next to that copy
EVID = os.environ.get("VERIF_EVIDENCE_DIR") or (os.path.join(VERIF, "evidence") if os.path.realpath(REPO) == "/repo"
                                                 else os.path.join(REPO, ".verif-evidence"))

PROPS = {json.loads(l)["id"]: json.loads(l) for l in open(os.path.join(VERIF, "properties.jsonl")) if l.strip()}


# --------------------------------------------------------------------------
# harness discovery
# --------------------------------------------------------------------------
def parse_module(path):
  """-> (META literal, {funcname: FunctionDef})"""
  src = open(path).read()
  tree = ast.parse(src, filename=path)
  meta, funcs, consts = None, {}, {}
  for node in tree.body:
    if isinstance(node, ast.Assign) and len(node.targets) == 1 and \
        isinstance(node.targets[0], ast.Name) and node.targets[0].id == "META":
      meta = eval(compile(ast.Expression(node.value), path, "eval"), {"__builtins__": {}}, consts)
    elif isinstance(node, ast.Assign) and len(node.targets) == 1 and isinstance(node.targets[0], ast.Name):
      try:
        consts[node.targets[0].id] = ast.literal_eval(node.value)
      except Exception:
        pass
    elif isinstance(node, ast.FunctionDef):
      funcs[node.name] = node
  return src, meta, funcs


def modules_for(pid):
  pat = os.path.join(VERIF, "harness", pid.lower() + "_*.py")
  return sorted(glob.glob(pat))


def make_twin(path, src, funcs, names, workdir):
  """Write a copy of the harness module with a reachability twin per harness:
  same signature and preconditions; postcondition 'the non-trivial assertion
  point was NOT reached' -- CrossHair must refute it."""
  out = [src, "\n\n# ---- generated reachability twins ----\n"]
  for name in names:
    fd = funcs[name]
    doc = ast.get_docstring(fd, clean=False) or ""
    pres = [l.strip() for l in doc.splitlines() if l.strip().startswith("pre:")]
    args = ast.unparse(fd.args)
    argnames = [a.arg for a in fd.args.args]
    out.append("def tw_%s(%s) -> bool:\n" % (name, args))
    out.append('  """\n')
    for p in pres:
      out.append("  " + p + "\n")
    out.append("  post: _ == True\n")
    out.append('  """\n')
    out.append("  vp.WITNESS[0] = False\n")
    out.append("  %s(%s)\n" % (name, ", ".join(argnames)))
    out.append("  return not vp.WITNESS[0]\n\n")
  base = "tw_" + os.path.basename(path)
  tpath = os.path.join(workdir, base)
  with open(tpath, "w") as f:
    f.write("".join(out))
  _, _, tfuncs = parse_module(tpath)
  return tpath, tfuncs


# --------------------------------------------------------------------------
# one CrossHair job
# --------------------------------------------------------------------------
_CALL_RE = re.compile(r"when calling (\w+)\((.*)\)\s*$", re.S)
_WHICH_RE = re.compile(r"\s*\(which (?:returns|raises) [^()]*(?:\([^()]*\)[^()]*)*\)\s*$", re.S)


def _env(extra):
  env = dict(os.environ)
  env.update({
    "PYTHONDONTWRITEBYTECODE": "1",
    "PYTHONHASHSEED": "0",
    "VERIF_REPO": REPO,
  })
  env.update({k: str(v) for k, v in extra.items()})
  return env


def run_ch_job(job):
  """job: dict(file, func, line, timeout, path_timeout, env, workdir, tag)"""
  tag = job["tag"]
  pathlog = os.path.join(job["workdir"], tag + ".paths")
  z3log = os.path.join(job["workdir"], tag + ".z3")
  env = _env(dict(job["env"], VERIF_PATHLOG=pathlog, VERIF_Z3LOG=z3log,
                  PYTHONPATH=os.pathsep.join([os.path.dirname(job["file"]), VERIF, REPO])))
  cmd = [PY_VT, "-m", "crosshair", "check", "%s:%d" % (job["file"], job["line"]), "--report_all",
         "--per_condition_timeout", str(job["timeout"])]
  if job.get("path_timeout"):
    cmd += ["--per_path_timeout", str(job["path_timeout"])]
  cmd += ["--extra_plugin", os.path.join(VERIF, "vlib", "ch_plugin.py")]
  t0 = time.time()
  try:
    p = subprocess.run(cmd, env=env, stdout=subprocess.PIPE, stderr=subprocess.PIPE,
                       text=True, timeout=job["timeout"] * 1.5 + 60, cwd=VERIF)
    out, err, rc = p.stdout, p.stderr, p.returncode
  except subprocess.TimeoutExpired as e:
    out = (e.stdout or b"").decode() if isinstance(e.stdout, bytes) else (e.stdout or "")
    err, rc = "wall-clock timeout", 124
  wall = time.time() - t0
  res = {"tag": tag, "func": job["func"], "wall_s": round(wall, 2), "rc": rc,
         "verdict": "inconclusive", "detail": "", "cex": None}
  # crosshair prints one message per condition; messages may span lines
  msgs = re.split(r"(?m)^(?=\S+\.py:\d+: (?:error|info|warning): )", out)
  verdicts = []
  for m in msgs:
    m = m.strip()
    if not m: continue
    mm = re.match(r"\S+\.py:\d+: (error|info|warning): (.*)$", m, re.S)
    if not mm: continue
    kind, text = mm.group(1), mm.group(2).strip()
    if kind == "info" and text.startswith("Confirmed over all paths"):
      verdicts.append(("confirmed", text, None))
    elif kind == "info":
      verdicts.append(("inconclusive", text, None))
    elif kind == "error":
      cm = _CALL_RE.search(_WHICH_RE.sub("", text))
      if cm:
        verdicts.append(("counterexample", text, (cm.group(1), cm.group(2))))
      else:
        verdicts.append(("error", text, None))
  if any(v[0] == "counterexample" for v in verdicts):
    v = [v for v in verdicts if v[0] == "counterexample"][0]
    res.update(verdict="counterexample", detail=v[1], cex=v[2])
  elif any(v[0] == "error" for v in verdicts):
    v = [v for v in verdicts if v[0] == "error"][0]
    res.update(verdict="error", detail=v[1])
  elif verdicts and all(v[0] == "confirmed" for v in verdicts):
    res.update(verdict="confirmed", detail=verdicts[0][1])
  elif verdicts:
    res.update(verdict="inconclusive", detail="; ".join(v[1] for v in verdicts))
  else:
    res.update(verdict="error" if (rc not in (0, 1, 124) or "CrossHairInternal" in err or "Traceback" in err) else "inconclusive",
               detail=("rc=%s " % rc) + (err.strip().splitlines()[-1] if err.strip() else "no output"))
  # path log
  ent = rea = 0; cur = False
  samples, seen = [], set()
  if os.path.exists(pathlog):
    for line in open(pathlog):
      try:
        kind, t, vals = json.loads(line)
      except Exception:
        continue
      if kind == "E":
        ent += 1; cur = False
      elif kind == "R":
        if not cur:
          rea += 1; cur = True     # paths that reached an assertion (counted once per path)
        key = json.dumps(vals)
        if key not in seen and len(samples) < 3:
          seen.add(key); samples.append({"harness": job["func"], "reached_with": vals})
  res.update(paths=ent, reached=rea, samples=samples)
  z3s = {"queries": 0, "solver_s": 0.0, "unknown": 0}
  if os.path.exists(z3log):
    try: z3s = json.load(open(z3log))
    except Exception: pass
  res["z3"] = z3s
  res["stderr_tail"] = err.strip().splitlines()[-3:] if err and res["verdict"] in ("error",) else []
  return res


# --------------------------------------------------------------------------
# native replay
# --------------------------------------------------------------------------
def _capture(*a, **k):
  return list(a), k


def parse_call_args(argstr):
  """CrossHair prints the call with Python literals."""
  ns = {"__builtins__": {}, "_capture": _capture, "True": True, "False": False,
        "None": None, "float": float, "set": set, "frozenset": frozenset,
        "dict": dict, "list": list, "tuple": tuple, "bytes": bytes, "chr": chr}
  return eval("_capture(" + argstr + ")", ns)


def write_replay(pid, modfile, func, args, kwargs, tier, message, env=None, kind="harness"):
  d = os.path.join(EVID, "replays")
  os.makedirs(d, exist_ok=True)
  base = "%s-%s" % (pid, func)
  n = 0
  while os.path.exists(os.path.join(d, "%s-%d.json" % (base, n))): n += 1
  path = os.path.join(d, "%s-%d.json" % (base, n))
  with open(path, "w") as f:
    json.dump({"property": pid, "kind": kind, "module": os.path.relpath(modfile, VERIF),
               "function": func, "args": args, "kwargs": kwargs, "tier": tier,
               "env": env or {}, "message": message,
               "how": "cd /verif && bin/replay " + path}, f, indent=1)
  return path


def native_replay(replay, kf_active=""):
  """Run the harness natively (CPython of the repository, no CrossHair, no
  stubs, no shims).  -> (reproduced: bool|None, text)"""
  if isinstance(replay, str):
    rpath = replay
  else:
    fd, rpath = tempfile.mkstemp(suffix=".json"); os.close(fd)
    json.dump(replay, open(rpath, "w"))
  env = _env({"VERIF_NATIVE": "1", "VERIF_KF_ACTIVE": kf_active,
              "PYTHONPATH": os.pathsep.join([VERIF, REPO])})
  env.pop("VERIF_PATHLOG", None)
  try:
    p = subprocess.run([PY_NATIVE, "-m", "vlib.replay", rpath], env=env, cwd=VERIF,
                       stdout=subprocess.PIPE, stderr=subprocess.STDOUT, text=True, timeout=300)
    out, rc = p.stdout, p.returncode
  except subprocess.TimeoutExpired:
    out, rc = "replay timeout", 2
  finally:
    if not isinstance(replay, str):
      os.unlink(rpath)
  if rc == 1: return True, out.strip()
  if rc == 0: return False, out.strip()
  return None, out.strip()


# --------------------------------------------------------------------------
# known findings
# --------------------------------------------------------------------------
def load_known(pid):
  p = os.path.join(VERIF, "known_findings.json")
  if not os.path.exists(p): return []
  data = json.load(open(p))
  return [k for k in data.get("known", []) if k["property"] == pid or pid in k.get("also", [])]


def activate_known(pid, tier, say):
  """Replay every listed witness on the current tree; a finding is 'active'
  (printed as KNOWN-FINDING and excluded by its narrow predicate inside the
  harness) only while its witness still fails."""
  active = []
  for k in load_known(pid):
    rep = {"property": pid, "kind": k.get("kind", "harness"), "module": k["module"],
           "function": k["function"], "args": k["args"], "kwargs": k.get("kwargs", {}),
           "tier": tier, "env": k.get("env", {})}
    ok, text = native_replay(rep, kf_active="")
    if ok:
      say("KNOWN-FINDING: property=%s %s [%s]" % (pid, k["description"], k["id"]))
      active.append(k["id"])
    elif ok is False:
      say("note: listed finding %s no longer reproduces; its exclusion is dropped" % k["id"])
    else:
      say("note: witness of %s could not be replayed (%s)" % (k["id"], text[-200:]))
  return active


# --------------------------------------------------------------------------
# property driver
# --------------------------------------------------------------------------
def check_property(pid, tier, only=None, verbose=True):
  t0 = time.time()
  seed = int(os.environ.get("VERIF_SEED", "0") or 0)
  def say(s):
    print(s, flush=True)
  mods = modules_for(pid)
  if not mods:
    say("no harness modules for " + pid); return EXIT_HARNESS_ERROR
  workdir = tempfile.mkdtemp(prefix="verif-%s-" % pid)
  try:
    return _check(pid, tier, seed, mods, workdir, only, say, t0)
  finally:
    shutil.rmtree(workdir, ignore_errors=True)


def _check(pid, tier, seed, mods, workdir, only, say, t0):
  active = activate_known(pid, tier, say)
  kf_env = ",".join(active)
  jobs, twinjobs, scripts = [], [], []
  hmeta = {}
  for path in mods:
    src, meta, funcs = parse_module(path)
    if meta is None:
      say("harness error: %s has no META" % path); return EXIT_HARNESS_ERROR
    hs = meta.get("harnesses", {})
    names = [n for n in hs if (only is None or n in only) and tier in hs[n].get("tiers", ["quick", "thorough"])]
    for n in names:
      if n not in funcs:
        say("harness error: %s.%s missing" % (path, n)); return EXIT_HARNESS_ERROR
    twin_names = [n for n in names if hs[n].get("twin", True)]
    tpath, tfuncs = make_twin(path, src, funcs, twin_names, workdir) if twin_names else (None, {})
    for n in names:
      m = hs[n]; hmeta[n] = dict(m, module=path)
      nparts = m.get("parts", {}).get(tier, 1) if isinstance(m.get("parts"), dict) else m.get("parts", 1)
      to = m.get("timeout", {}).get(tier, 120) if isinstance(m.get("timeout"), dict) else m.get("timeout", 120)
      base_env = {"VERIF_TIER": tier, "VERIF_SEED": seed, "VERIF_KF_ACTIVE": kf_env,
                  "VERIF_MSGSTUB": "1" if m.get("stub", True) else "0", "VERIF_NPART": nparts,
                  "TMPDIR": workdir}        # temporary files of the harness modules die with the run's work directory
      base_env.update(m.get("env", {}))
      for i in range(nparts):
        jobs.append({"file": path, "func": n, "line": funcs[n].lineno + 1, "timeout": to,
                     "path_timeout": m.get("path_timeout"), "workdir": workdir,
                     "env": dict(base_env, VERIF_PART=i), "tag": "%s.p%d" % (n, i), "part": i})
      if n in twin_names:
        twinjobs.append({"file": tpath, "func": "tw_" + n, "line": tfuncs["tw_" + n].lineno + 1,
                         "timeout": m.get("twin_timeout", min(to, 120)), "path_timeout": m.get("path_timeout"),
                         "workdir": workdir, "env": dict(base_env, VERIF_PART=m.get("twin_part", 0)),
                         "tag": "tw_%s" % n, "of": n})
    for sname, sm in meta.get("scripts", {}).items():
      if (only is None or sname in only) and tier in sm.get("tiers", ["quick", "thorough"]):
        scripts.append((path, sname, sm))

  results, twins, script_results = [], [], []
  with ThreadPoolExecutor(max_workers=NCPU) as ex:
    fut_s = [ex.submit(run_script, path, sname, sm, tier, seed, kf_env, workdir) for path, sname, sm in scripts]
    fut_j = [ex.submit(run_ch_job, j) for j in jobs]
    fut_t = [ex.submit(run_ch_job, j) for j in twinjobs]
    script_results = [f.result() for f in fut_s]
    results = [f.result() for f in fut_j]
    twins = [f.result() for f in fut_t]

  # ---- verdicts ----------------------------------------------------------
  violations, harness_errors, inconclusive = [], [], []
  per_h = {}
  for j, r in zip(jobs, results):
    h = per_h.setdefault(r["func"], {"parts": [], "verdict": None})
    h["parts"].append(r)
    if r["verdict"] == "counterexample":
      fn, argstr = r["cex"]
      try:
        args, kwargs = parse_call_args(argstr)
      except Exception as e:
        harness_errors.append("%s: cannot parse counterexample %r (%s)" % (r["tag"], argstr, e)); continue
      rp = write_replay(pid, j["file"], fn, args, kwargs, tier, r["detail"],
                        env={k: v for k, v in j["env"].items() if k in ("VERIF_TIER",)})
      ok, text = native_replay(rp, kf_active=kf_env)
      if ok:
        violations.append((rp, r, text))
      else:
        os.unlink(rp)
        # a solver counterexample that the unmodified code does not exhibit: the encoding (a CrossHair model of a
        # builtin, a bare 'except:' in gfapy swallowing a path-steering exception, ...) is imprecise here.  It is
        # never reported as a violation; the obligation stays undischarged.
        r["verdict"] = "spurious"
        (harness_errors if ok is None else inconclusive).append(
            "%s: solver counterexample %s(%s) does not reproduce natively (%s): obligation not discharged" %
            (r["tag"], fn, argstr, text[-200:]))
    elif r["verdict"] == "error":
      harness_errors.append("%s: %s %s" % (r["tag"], r["detail"], " | ".join(r.get("stderr_tail", []))))
    elif r["verdict"] == "inconclusive":
      inconclusive.append("%s: %s" % (r["tag"], r["detail"]))
  for j, r in zip(twinjobs, twins):
    h = per_h.setdefault(j["of"], {"parts": [], "verdict": None})
    h["twin"] = r
    if r["verdict"] == "confirmed":
      harness_errors.append("%s: reachability twin CONFIRMED -> harness %s is vacuous" % (r["tag"], j["of"]))
    elif r["verdict"] != "counterexample":
      inconclusive.append("%s: reachability twin not decided (%s)" % (r["tag"], r["detail"]))
  for sr in script_results:
    for v in sr.get("violations", []):
      rp = write_replay(pid, sr["module"], sr["name"], v.get("args", []), v.get("kwargs", {}), tier,
                        v.get("message", ""), kind="script")
      ok, text = native_replay(rp, kf_active=kf_env)
      if ok: violations.append((rp, {"tag": sr["name"], "detail": v.get("message", "")}, text))
      else:
        os.unlink(rp)
        harness_errors.append("%s: witness %r does not reproduce natively: %s" % (sr["name"], v, text[-300:]))
    harness_errors += ["%s: %s" % (sr["name"], e) for e in sr.get("errors", [])]
    inconclusive += ["%s: %s" % (sr["name"], e) for e in sr.get("inconclusive", [])]

  # ---- evidence ----------------------------------------------------------
  obligations = discharged = 0
  paths = reached = queries = 0
  solver_s = 0.0
  samples, hrows = [], []
  functions = set()
  for n, h in per_h.items():
    m = hmeta.get(n, {})
    vs = [p["verdict"] for p in h["parts"]]
    obligations += len(vs)
    discharged += sum(1 for v in vs if v == "confirmed")
    hp = sum(p["paths"] for p in h["parts"]); hr = sum(p["reached"] for p in h["parts"])
    paths += hp; reached += hr
    queries += sum(p["z3"]["queries"] for p in h["parts"]); solver_s += sum(p["z3"]["solver_s"] for p in h["parts"])
    for p in h["parts"]:
      for s in p["samples"]:
        if len([x for x in samples if x.get("harness") == n]) < 2: samples.append(s)
    tw = h.get("twin")
    if tw and tw["verdict"] == "counterexample":
      samples.append({"harness": n, "twin_witness_call": "%s(%s)" % (n, tw["cex"][1])})
    functions.update(m.get("functions", []))
    hrows.append({"harness": n, "kind": m.get("kind"), "bounds": m.get("bounds"),
                  "functions_encoded": m.get("functions", []), "stubs": (["msgstub"] if m.get("stub", True) else []) + ["unpartial"],
                  "partitions": len(vs), "verdicts": vs, "paths": hp, "paths_reaching_assertion": hr,
                  "z3_queries": sum(p["z3"]["queries"] for p in h["parts"]),
                  "solver_s": round(sum(p["z3"]["solver_s"] for p in h["parts"]), 2),
                  "cpu_wall_s": round(sum(p["wall_s"] for p in h["parts"]), 1),
                  "twin": (tw["verdict"] if tw else None)})
  for sr in script_results:
    obligations += sr.get("obligations", 0); discharged += sr.get("discharged", 0)
    paths += sr.get("evaluations", 0); reached += sr.get("distinct_nontrivial", 0)
    queries += sr.get("queries", 0); solver_s += sr.get("solver_s", 0.0)
    samples += sr.get("samples", [])[:4]
    functions.update(sr.get("functions", []))
    hrows.append({"harness": sr["name"], "kind": "E2-script", "bounds": sr.get("bounds"),
                  "functions_encoded": sr.get("functions", []), "obligations": sr.get("obligations", 0),
                  "discharged": sr.get("discharged", 0), "z3_queries": sr.get("queries", 0),
                  "solver_s": round(sr.get("solver_s", 0.0), 2), "detail": sr.get("detail")})
  wall = time.time() - t0
  ev = {
    "property_id": pid, "tier": tier, "seed": seed, "level": "model_checking",
    "coverage": {
      "evaluations": max(paths, 1) if paths else 0,
      "distinct_nontrivial": reached,
      "rule": "one evaluation = one symbolic execution path of a harness over the real gfapy code (every path "
              "stands for the whole class of inputs that drive the code down it; CrossHair never repeats a path) "
              "or one SMT query of the E2 encoding; non-trivial = the path reached the harness's core assertion "
              "(vp.reached), i.e. was not filtered out by a precondition/validity guard",
      "samples": samples[:12] or [{"note": "no path reached an assertion"}],
      "obligations": obligations, "discharged": discharged,
      "exhaustive": bool(obligations and obligations == discharged),
      "solver_queries": queries, "solver_s": round(solver_s, 2),
      "functions_encoded": sorted(functions),
      "harnesses": hrows,
      "inconclusive": inconclusive,
      "known_findings_active": active,
      "explanation": "obligation = one (harness, partition) CrossHair run or one E2 query; discharged = "
                     "'Confirmed over all paths' (every feasible path within the stated bounds exhausted, z3 deciding "
                     "each branch) resp. 'unsat'",
    },
    "assumptions": [
      "bounds per harness as listed in coverage.harnesses[].bounds; nothing is claimed outside them",
      "CrossHair 0.0.110 models of Python builtins are trusted (except '$' in re: strings are newline-free in E1 harnesses)",
      "gfapy is executed under CPython 3.11 (tooling venv); counterexamples are replayed under the repository's CPython 3.12",
      "error-message arguments of raise statements are stubbed to a constant where stubs lists msgstub",
    ],
    "wall_s": round(wall, 2),
    "violations": len(violations),
  }
  os.makedirs(EVID, exist_ok=True)
  with open(os.path.join(EVID, pid + ".json"), "w") as f:
    json.dump(ev, f, indent=1, default=str)
  # ---- report ------------------------------------------------------------
  say("%s %s: obligations=%d discharged=%d paths=%d reached=%d z3_queries=%d solver_s=%.1f wall=%.1fs" %
      (pid, tier, obligations, discharged, paths, reached, queries, solver_s, wall))
  for row in hrows:
    say("  %-34s %s" % (row["harness"], row.get("verdicts") or ("%s/%s" % (row.get("discharged"), row.get("obligations")))))
  for s in inconclusive: say("  inconclusive: " + s)
  for rp, r, text in violations:
    say("  counterexample (%s): %s" % (r["tag"], r["detail"][:500]))
    say("  native replay: " + text[-400:].replace("\n", " | "))
    say("VIOLATION property=%s replay=%s" % (pid, rp))
  if harness_errors:
    for e in harness_errors: say("HARNESS-ERROR: " + e)
  if violations: return 1
  if harness_errors: return EXIT_HARNESS_ERROR
  return 0


# --------------------------------------------------------------------------
# script obligations (E2 etc.): a python3-vt script printing one JSON object
# --------------------------------------------------------------------------
def run_script(path, sname, sm, tier, seed, kf_env, workdir):
  out_json = os.path.join(workdir, sname + ".json")
  env = _env({"VERIF_TIER": tier, "VERIF_SEED": seed, "VERIF_KF_ACTIVE": kf_env, "VERIF_OUT": out_json,
              "PYTHONPATH": os.pathsep.join([VERIF, REPO])})
  to = sm.get("timeout", {}).get(tier, 300) if isinstance(sm.get("timeout"), dict) else sm.get("timeout", 300)
  mod = "harness." + os.path.splitext(os.path.basename(path))[0]
  cmd = [PY_VT, "-c", "import %s as m; m.%s()" % (mod, sm["entry"])]
  t0 = time.time()
  res = {"name": sname, "module": path}
  try:
    p = subprocess.run(cmd, env=env, cwd=VERIF, stdout=subprocess.PIPE, stderr=subprocess.PIPE, text=True, timeout=to)
    if p.returncode != 0 or not os.path.exists(out_json):
      res["errors"] = ["script failed rc=%s: %s" % (p.returncode, (p.stderr or p.stdout).strip()[-600:])]
    else:
      res.update(json.load(open(out_json)))
  except subprocess.TimeoutExpired:
    res["inconclusive"] = ["script timeout after %ss" % to]
  res["wall_s"] = round(time.time() - t0, 2)
  return res
