"""Import hook: load the modules under $VERIF_REPO/gfapy from source with one
mechanical AST change -- the argument list of `raise X(<message expr>)` becomes
the constant "<msg>".  Error messages .format() symbolic values and CrossHair's
int.__repr__ forks once per decimal digit, so unstubbed messages make the
solver enumerate digits of values the property does not depend on.

Never reads or writes __pycache__ (own source_to_code, bytecode writing off),
never used in native replay, never used for C07 (there the message expressions
are part of the subject)."""
import ast, sys, importlib.abc, importlib.machinery, os

ROOT = os.path.join(os.environ.get("VERIF_REPO", "/repo"), "gfapy")

STUB_MESSAGES = [True]

class _Stub(ast.NodeTransformer):
  """(1) optional: error-message arguments -> constant;  (2) always: docstrings of gfapy's functions and
  classes are dropped.  CrossHair's PEP316 parser reads the 'Raises:' sections of gfapy's Google-style
  docstrings as contracts and then *enforces* them on every call (deep-copying the arguments, which fails on
  SegmentEnd/OrientedLine); the docstrings carry no behaviour."""
  def visit_Raise(self, node):
    self.generic_visit(node)
    exc = node.exc
    if STUB_MESSAGES[0] and isinstance(exc, ast.Call) and exc.args:
      exc.args = [ast.Constant(value="<msg>")]
      exc.keywords = []
    return node

  def _strip_doc(self, node):
    self.generic_visit(node)
    b = node.body
    if b and isinstance(b[0], ast.Expr) and isinstance(b[0].value, ast.Constant) and isinstance(b[0].value.value, str):
      node.body = b[1:] or [ast.Pass()]
    return node

  visit_FunctionDef = _strip_doc
  visit_AsyncFunctionDef = _strip_doc
  visit_ClassDef = _strip_doc

class _Loader(importlib.machinery.SourceFileLoader):
  def get_code(self, fullname):
    path = self.get_filename(fullname)
    data = self.get_data(path)
    return self.source_to_code(data, path)
  def source_to_code(self, data, path, *, _optimize=-1):
    tree = ast.parse(data, filename=path)
    tree = _Stub().visit(tree)
    ast.fix_missing_locations(tree)
    return compile(tree, path, "exec", dont_inherit=True, optimize=_optimize)

class _Finder(importlib.abc.MetaPathFinder):
  def find_spec(self, fullname, path, target=None):
    if fullname != "gfapy" and not fullname.startswith("gfapy."):
      return None
    spec = importlib.machinery.PathFinder.find_spec(fullname, path)
    if spec is None or not spec.origin or not spec.origin.startswith(ROOT):
      return spec
    spec.loader = _Loader(fullname, spec.origin)
    spec.cached = None
    return spec

_installed = False
def install(stub_messages=True):
  global _installed
  STUB_MESSAGES[0] = stub_messages
  if _installed: return
  _installed = True
  sys.dont_write_bytecode = True
  sys.meta_path.insert(0, _Finder())
