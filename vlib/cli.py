import argparse, os, sys
from vlib import runner

def main():
  ap = argparse.ArgumentParser()
  ap.add_argument("property")
  ap.add_argument("--tier", default=os.environ.get("VERIF_TIER", "quick"), choices=["quick", "thorough"])
  ap.add_argument("--only", default=None)
  a = ap.parse_args()
  only = set(a.only.split(",")) if a.only else None
  sys.exit(runner.check_property(a.property.upper(), a.tier, only=only))

if __name__ == "__main__":
  main()
