"""Harness prelude.  Imported first by every harness module.

* puts $VERIF_REPO (default /repo) on sys.path and imports the *real* gfapy
  from its current sources (optionally through the message stub);
* replaces functools.partialmethod objects in gfapy classes by plain functions
  (CrossHair's C tracer cannot call them) -- not in native replay;
* provides NoTracing (a null context outside CrossHair), tier/partition
  constants, path logging, the non-triviality witness flag used by the
  reachability twins, and known-finding exclusion.
"""
import os, sys, json, contextlib, functools

REPO = os.environ.get("VERIF_REPO", "/repo")
NATIVE = os.environ.get("VERIF_NATIVE") == "1"
TIER = os.environ.get("VERIF_TIER", "quick")
QUICK = TIER != "thorough"
PART = int(os.environ.get("VERIF_PART", "0"))
NPART = int(os.environ.get("VERIF_NPART", "1"))
SEED = int(os.environ.get("VERIF_SEED", "0") or 0)
STUB = (os.environ.get("VERIF_MSGSTUB", "1") == "1") and not NATIVE
_PATHLOG = os.environ.get("VERIF_PATHLOG")
_KF_ACTIVE = set(x for x in os.environ.get("VERIF_KF_ACTIVE", "").split(",") if x)

sys.dont_write_bytecode = True
if REPO in sys.path:
  sys.path.remove(REPO)
sys.path.insert(0, REPO)
if not NATIVE:
  # source loader: always drops gfapy's docstrings (CrossHair would read them as contracts), and stubs the
  # error-message arguments unless VERIF_MSGSTUB=0; never used in native replay
  from vlib import msgstub
  msgstub.install(stub_messages=STUB)
import gfapy

if os.path.realpath(os.path.dirname(os.path.dirname(gfapy.__file__))) != os.path.realpath(REPO):
  raise ImportError("gfapy imported from %s, expected %s" % (gfapy.__file__, REPO))

try:
  from crosshair.tracers import NoTracing, is_tracing
  HAVE_CH = True
except ImportError:   # native replay under /venv/bin/python
  HAVE_CH = False
  NoTracing = contextlib.nullcontext
  def is_tracing(): return False

def _plain(func, kw):
  def plain(self, *a, **k):
    kk = dict(kw); kk.update(k)
    return func(self, *a, **kk)
  plain.__name__ = getattr(func, "__name__", "plain")
  return plain

def _unpartial():
  seen = set()
  def walk(cls):
    if cls in seen or not cls.__module__.startswith("gfapy"): return
    seen.add(cls)
    for name, v in list(cls.__dict__.items()):
      if isinstance(v, functools.partialmethod):
        setattr(cls, name, _plain(v.func, v.keywords))
    for b in cls.__bases__: walk(b)
    for s in cls.__subclasses__(): walk(s)
  walk(gfapy.Line)
def _copy_shim():
  """CrossHair wraps builtins that carry registered contracts (repr, ...) and shallow-copies their arguments
  with copy.copy(); gfapy's SegmentEnd/OrientedLine define __new__(cls, *args) reading args[0], which the
  default copy protocol calls without arguments (IndexError inside the tracer).  Give them an explicit,
  behaviour-preserving __copy__ -- only under CrossHair, never in native replay."""
  gfapy.SegmentEnd.__copy__ = lambda self: gfapy.SegmentEnd(self.segment, self.end_type)
  gfapy.OrientedLine.__copy__ = lambda self: gfapy.OrientedLine(self.line, self.orient)
  # CrossHair's own deep copy (copyext) ignores __copy__ and falls back to __reduce_ex__ -> cls.__new__(cls):
  gfapy.SegmentEnd.__reduce_ex__ = lambda self, proto: (gfapy.SegmentEnd, (self.segment, self.end_type))
  gfapy.OrientedLine.__reduce_ex__ = lambda self, proto: (gfapy.OrientedLine, (self.line, self.orient))

def _repr_shim():
  """CrossHair replaces the builtin repr() by a contract-carrying wrapper that may 'short-circuit' the call
  into a fresh symbolic string (hundreds of spurious paths; see DESIGN 2.3).  gfapy calls repr() on its own
  objects in ordinary code (multiply: link signatures).  Bind the name repr in gfapy's modules to the
  type's own __repr__ -- the same function the builtin would call."""
  def _plain_repr(o):
    return type(o).__repr__(o)
  for name, mod in list(sys.modules.items()):
    if name == "gfapy" or name.startswith("gfapy."):
      if mod is not None and not hasattr(mod, "repr"):
        mod.repr = _plain_repr

if HAVE_CH and not NATIVE:
  _unpartial()
  _copy_shim()
  _repr_shim()

def plain(v):
  """a value that is concrete anyway, as a plain Python object (CrossHair wraps strings built by
  formatting in lazy proxy types that some gfapy code paths and C functions mishandle)"""
  if not HAVE_CH or NATIVE:
    return v
  from crosshair.core import deep_realize
  with NoTracing():
    return deep_realize(v)

def T(quick, thorough):
  """tier-dependent bound"""
  return quick if QUICK else thorough

# ---- path log / witness -------------------------------------------------
WITNESS = [False]

def _plainval(v):
  t = type(v)
  if t in (int, str, bool, float, type(None)):
    return v
  if t in (list, tuple):
    return [_plainval(x) for x in v]
  return "?"      # symbolic (not realised on purpose: realising would add decisions)

# opened at import time: CrossHair's audit wall blocks open() during analysis
_PATHFH = open(_PATHLOG, "a", buffering=1) if _PATHLOG else None

def _log(kind, tag, vals):
  if _PATHFH is None: return
  with NoTracing():
    try:
      rec = json.dumps([kind, tag, [_plainval(v) for v in vals]])
    except Exception:
      rec = json.dumps([kind, tag, "?"])
    _PATHFH.write(rec + "\n")

def enter(tag, *vals):
  """first statement of a harness: one record per explored path"""
  WITNESS[0] = False
  _log("E", tag, vals)

def reached(tag, *vals):
  """called where the core assertion is evaluated on a non-trivial case"""
  WITNESS[0] = True
  _log("R", tag, vals)

# ---- known findings -----------------------------------------------------
def kf_active(fid):
  return fid in _KF_ACTIVE

def perm_from(code, n):
  """decode 0 <= code < n! into a permutation of range(n)"""
  idx = list(range(n)); out = []
  for k in range(n, 0, -1):
    out.append(idx.pop(code % k)); code //= k
  return out

def concretize(i, lo, hi):
  """turn a (symbolic) int known to lie in lo..hi into a concrete int by
  bisection: O(log n) solver decisions instead of n"""
  if not (lo <= i <= hi):
    raise ValueError(i)
  while lo < hi:
    mid = (lo + hi) // 2
    if i <= mid:
      hi = mid
    else:
      lo = mid + 1
  return lo

def pick(lst, i):
  """concretising index: the result is a concrete element of lst"""
  return lst[concretize(i, 0, len(lst) - 1)]
