# CrossHair --extra_plugin: counts z3 queries / solver time for the evidence.
def _verif_install():
  import os, time, atexit, json
  log = os.environ.get("VERIF_Z3LOG")
  if not log:
    return
  import z3
  try:
    from crosshair.auditwall import opened_auditwall
  except ImportError:
    import contextlib
    opened_auditwall = contextlib.nullcontext
  with opened_auditwall():
    fh = open(log, "w")
  stats = {"queries": 0, "solver_s": 0.0, "unknown": 0}
  orig = z3.Solver.check
  def check(self, *a, **k):
    t = time.perf_counter()
    r = orig(self, *a, **k)
    stats["solver_s"] += time.perf_counter() - t
    stats["queries"] += 1
    if r == z3.unknown:
      stats["unknown"] += 1
    return r
  z3.Solver.check = check
  def dump():
    try:
      fh.write(json.dumps(stats)); fh.close()
    except Exception:
      pass
  atexit.register(dump)
_verif_install()
