"""E2: field validators as SMT regex constraints.

On every run the `validate_encoded` functions of $VERIF_REPO/gfapy/field/*.py
are read from source with `ast`, their small decision code is evaluated
symbolically into a z3 Bool over a z3 String, Python regular expressions are
translated to z3 regexes with CPython's exact anchoring semantics, and language
equality with the independent grammar (spec/gfa_grammar.py) is decided for
strings of ANY length.  The translation itself is validated against the real
functions on a dense set of short strings (translation validation)."""
import ast, os, re, time
import z3
try:
  import re._parser as sre_parse, re._constants as C
except ImportError:      # Python < 3.11
  import sre_parse, sre_constants as C

RS = z3.ReSort(z3.StringSort())
ANYCHAR = z3.AllChar(RS)


class Unsupported(Exception):
  pass


def _chr_re(c):
  return z3.Re(z3.StringVal(chr(c)))


def _class(items):
  negate, parts = False, []
  for op, av in items:
    if op == C.NEGATE: negate = True
    elif op == C.LITERAL: parts.append(_chr_re(av))
    elif op == C.RANGE: parts.append(z3.Range(chr(av[0]), chr(av[1])))
    elif op == C.CATEGORY:
      if av == C.CATEGORY_DIGIT: parts.append(z3.Range("0", "9"))
      elif av == C.CATEGORY_SPACE: parts.append(z3.Union(*[_chr_re(ord(x)) for x in " \t\n\r\f\v"]))
      else: raise Unsupported("category %s" % av)
    else: raise Unsupported("class item %s" % op)
  r = parts[0] if len(parts) == 1 else z3.Union(*parts)
  if negate:
    r = z3.Intersect(ANYCHAR, z3.Complement(r))
  return r


def _seq(seq, at_end_ok):
  """translate a parsed sequence; AT_END is honoured only as the last element
  of a sequence that ends the whole pattern (at_end_ok)"""
  out = []
  anchored = False
  items = list(seq)
  for idx, (op, av) in enumerate(items):
    last = idx == len(items) - 1
    if op == C.LITERAL: out.append(_chr_re(av))
    elif op == C.NOT_LITERAL: out.append(z3.Intersect(ANYCHAR, z3.Complement(_chr_re(av))))
    elif op == C.IN: out.append(_class(av))
    elif op == C.ANY: out.append(z3.Intersect(ANYCHAR, z3.Complement(z3.Re(z3.StringVal("\n")))))
    elif op in (C.MAX_REPEAT, C.MIN_REPEAT):
      lo, hi, sub = av
      r = _seq(sub, False)
      if hi == C.MAXREPEAT:
        out.append(z3.Star(r) if lo == 0 else (z3.Plus(r) if lo == 1 else z3.Concat(*([r] * lo + [z3.Star(r)]))))
      elif lo == 0 and hi == 1:
        out.append(z3.Option(r))
      else:
        out.append(z3.Loop(r, lo, hi))
    elif op == C.SUBPATTERN:
      out.append(_seq(av[3], at_end_ok and last))
    elif op == C.BRANCH:
      out.append(z3.Union(*[_seq(b, at_end_ok and last) for b in av[1]]))
    elif op == C.AT:
      if av == C.AT_BEGINNING or av == C.AT_BEGINNING_STRING:
        if idx != 0: raise Unsupported("^ not at the start")
        continue
      if av == C.AT_END:                      # '$': end of string, or just before a final newline
        if not (last and at_end_ok): raise Unsupported("$ not at the end")
        out.append(z3.Option(z3.Re(z3.StringVal("\n"))))
        anchored = True
        continue
      if av == C.AT_END_STRING:               # '\Z': strict end
        if not (last and at_end_ok): raise Unsupported("\\Z not at the end")
        anchored = True
        continue
      raise Unsupported("anchor %s" % av)
    else:
      raise Unsupported("regex op %s" % op)
  if not out: r = z3.Re(z3.StringVal(""))
  else: r = out[0] if len(out) == 1 else z3.Concat(*out)
  if at_end_ok and not anchored and not _ends_anchored(items):
    r = z3.Concat(r, z3.Full(RS))             # re.match: open on the right
  return r


def _ends_anchored(items):
  """does every way through the last element end in an end anchor?"""
  if not items: return False
  op, av = items[-1]
  if op == C.AT and av in (C.AT_END, C.AT_END_STRING): return True
  if op == C.SUBPATTERN: return _ends_anchored(list(av[3]))
  if op == C.BRANCH: return all(_ends_anchored(list(b)) for b in av[1])
  return False


def match_re(pattern):
  """z3 regex of { s | re.match(pattern, s) }"""
  return _seq(sre_parse.parse(pattern), True)


def search_re(pattern):
  """z3 regex of { s | re.search(pattern, s) } for anchor-free patterns"""
  p = sre_parse.parse(pattern)
  for op, av in p:
    if op == C.AT: raise Unsupported("anchor in re.search")
  body = _seq(p, False)
  return z3.Concat(z3.Full(RS), body, z3.Full(RS))


def fullmatch_re(pattern):
  """z3 regex of { s | re.fullmatch(pattern, s) } (grammar side)"""
  return _seq(sre_parse.parse("(?:" + pattern + r")\Z"), True)


# ---------------------------------------------------------------------------
# symbolic evaluation of validate_encoded
# ---------------------------------------------------------------------------
class Encoder:
  def __init__(self, s, argname, consts=None):
    self.s, self.arg, self.consts = s, argname, consts or {}

  def _lit(self, node):
    if isinstance(node, ast.Constant) and isinstance(node.value, str):
      return node.value
    if isinstance(node, ast.Name) and node.id in self.consts:
      return self.consts[node.id]
    raise Unsupported("not a string literal: " + ast.dump(node)[:80])

  def _contains(self, lit):
    # kept inside the regex theory (mixing str.contains with regex complements made z3 answer 'unknown')
    return z3.InRe(self.s, z3.Concat(z3.Full(RS), z3.Re(z3.StringVal(lit)), z3.Full(RS)))

  def _is_arg(self, node):
    return isinstance(node, ast.Name) and node.id == self.arg

  def expr(self, node):
    """-> z3 Bool: truthiness of the expression"""
    if isinstance(node, ast.UnaryOp) and isinstance(node.op, ast.Not):
      return z3.Not(self.expr(node.operand))
    if isinstance(node, ast.BoolOp):
      vs = [self.expr(v) for v in node.values]
      return z3.And(*vs) if isinstance(node.op, ast.And) else z3.Or(*vs)
    if isinstance(node, ast.Call) and isinstance(node.func, ast.Attribute) and \
        isinstance(node.func.value, ast.Name) and node.func.value.id == "re" and len(node.args) == 2 and self._is_arg(node.args[1]):
      pat = self._lit(node.args[0])
      if node.func.attr == "match": return z3.InRe(self.s, match_re(pat))
      if node.func.attr == "search": return z3.InRe(self.s, search_re(pat))
      if node.func.attr == "fullmatch": return z3.InRe(self.s, fullmatch_re(pat))
      raise Unsupported("re." + node.func.attr)
    if isinstance(node, ast.Compare) and len(node.ops) == 1:
      l, op, r = node.left, node.ops[0], node.comparators[0]
      if self._is_arg(l) and isinstance(op, (ast.Eq, ast.NotEq)):
        e = z3.InRe(self.s, z3.Re(z3.StringVal(self._lit(r))))
        return e if isinstance(op, ast.Eq) else z3.Not(e)
      if self._is_arg(l) and isinstance(op, (ast.In, ast.NotIn)) and isinstance(r, (ast.List, ast.Tuple)):
        e = z3.InRe(self.s, z3.Union(*[z3.Re(z3.StringVal(self._lit(x))) for x in r.elts])) if len(r.elts) > 1 else \
            (z3.InRe(self.s, z3.Re(z3.StringVal(self._lit(r.elts[0])))) if r.elts else z3.BoolVal(False))
        return e if isinstance(op, ast.In) else z3.Not(e)
      # string.find(c) != -1   /  == -1
      if isinstance(l, ast.Call) and isinstance(l.func, ast.Attribute) and l.func.attr == "find" and self._is_arg(l.func.value) \
          and isinstance(r, ast.UnaryOp) and isinstance(r.op, ast.USub) and isinstance(r.operand, ast.Constant) and r.operand.value == 1:
        e = self._contains(self._lit(l.args[0]))
        if isinstance(op, ast.NotEq): return e
        if isinstance(op, ast.Eq): return z3.Not(e)
      # c in string
      if isinstance(op, (ast.In, ast.NotIn)) and self._is_arg(r):
        e = self._contains(self._lit(l))
        return e if isinstance(op, ast.In) else z3.Not(e)
    raise Unsupported("expression: " + ast.dump(node)[:100])

  def block(self, stmts):
    """-> (z3 Bool 'reaches the end of the block without raising', z3 Bool 'returned/ended early accepted')
    encoded as: accept(stmts) = Bool that the block does not raise"""
    if not stmts:
      return z3.BoolVal(True)
    st, rest = stmts[0], stmts[1:]
    if isinstance(st, ast.Raise):
      return z3.BoolVal(False)
    if isinstance(st, ast.Return):
      if st.value is None or isinstance(st.value, (ast.Name, ast.Constant)):
        return z3.BoolVal(True)
      raise Unsupported("return of a computed value: " + ast.dump(st.value)[:60])
    if isinstance(st, ast.Pass) or (isinstance(st, ast.Expr) and isinstance(st.value, ast.Constant)):
      return self.block(rest)
    if isinstance(st, ast.If):
      c = self.expr(st.test)
      then_ = self.block(st.body + rest) if not self._ends(st.body) else self.block(st.body)
      else_ = self.block(st.orelse + rest) if not self._ends(st.orelse) else self.block(st.orelse)
      return z3.If(c, then_, else_)
    raise Unsupported("statement: " + ast.dump(st)[:100])

  def _ends(self, body):
    return bool(body) and isinstance(body[-1], (ast.Raise, ast.Return))


def load_field_module(repo, name):
  path = os.path.join(repo, "gfapy", "field", name + ".py")
  tree = ast.parse(open(path).read(), filename=path)
  funcs, aliases = {}, {}
  for node in tree.body:
    if isinstance(node, ast.FunctionDef):
      funcs[node.name] = node
    elif isinstance(node, ast.Assign) and len(node.targets) == 1 and isinstance(node.targets[0], ast.Name) \
        and isinstance(node.value, ast.Name):
      aliases[node.targets[0].id] = node.value.id
  return path, funcs, aliases


def resolve(funcs, aliases, name):
  seen = set()
  while name in aliases and name not in funcs and name not in seen:
    seen.add(name); name = aliases[name]
  return funcs.get(name), name


def encode_validator(repo, module, s, fname="validate_encoded"):
  """-> (z3 Bool accepts(s), source location) ; raises Unsupported"""
  path, funcs, aliases = load_field_module(repo, module)
  fd, real = resolve(funcs, aliases, fname)
  if fd is None:
    raise Unsupported("%s.%s not found" % (module, fname))
  if len(fd.args.args) != 1:
    raise Unsupported("unexpected signature")
  enc = Encoder(s, fd.args.args[0].arg)
  body = [st for st in fd.body]
  return enc.block(body), "%s:%d %s" % (os.path.relpath(path, repo), fd.lineno, real)


def decode_delegates_to_validator(repo, module):
  """is decode(string) == 'validate_encoded(string); return <total expression>' ?"""
  path, funcs, aliases = load_field_module(repo, module)
  fd, _ = resolve(funcs, aliases, "decode")
  if fd is None or len(fd.args.args) != 1: return False
  arg = fd.args.args[0].arg
  body = [st for st in fd.body if not (isinstance(st, ast.Expr) and isinstance(st.value, ast.Constant))]
  if len(body) != 2: return False
  a, b = body
  ok_a = isinstance(a, ast.Expr) and isinstance(a.value, ast.Call) and isinstance(a.value.func, ast.Name) and \
      a.value.func.id == "validate_encoded" and len(a.value.args) == 1 and isinstance(a.value.args[0], ast.Name) and a.value.args[0].id == arg
  ok_b = isinstance(b, ast.Return)
  return ok_a and ok_b


class Solver:
  """z3 (Python API) decides; with cross=True every query is also written as SMT-LIB2 and given to the cvc5 and
  z3 binaries on PATH (other implementations / versions): a sat/unsat disagreement is recorded in .disagreements
  and makes the verdict 'unknown' (inconclusive); 'unknown'/timeouts of the second solvers are only counted."""
  def __init__(self, timeout_ms=60000, cross=False, cross_timeout_s=30):
    self.queries = 0; self.solver_s = 0.0; self.timeout_ms = timeout_ms
    self.cross = cross; self.cross_timeout_s = cross_timeout_s
    self.cross_results = {"cvc5": {"agree": 0, "unknown": 0}, "z3-binary": {"agree": 0, "unknown": 0}}
    self.disagreements = []

  def _second(self, name, cmd, text):
    import subprocess, tempfile, os
    fd, fn = tempfile.mkstemp(suffix=".smt2", prefix="verif-e2-")
    try:
      with os.fdopen(fd, "w") as fh: fh.write(text)
      t = time.perf_counter()
      try:
        out = subprocess.run(cmd + [fn], capture_output=True, text=True, timeout=self.cross_timeout_s + 10)
        lines = [l.strip() for l in (out.stdout + "\n" + out.stderr).splitlines() if l.strip()]
      except Exception as e:
        lines = ["unknown (%s)" % type(e).__name__]
      self.solver_s += time.perf_counter() - t
      if any(l.startswith("(error") for l in lines): return "unknown"
      for l in lines:
        if l in ("sat", "unsat"): return l
      return "unknown"
    finally:
      try: os.unlink(fn)
      except OSError: pass

  def check(self, *constraints):
    sol = z3.Solver(); sol.set("timeout", self.timeout_ms)
    sol.add(*constraints)
    t = time.perf_counter()
    r = sol.check()
    self.solver_s += time.perf_counter() - t; self.queries += 1
    verdict = str(r)
    if self.cross and verdict in ("sat", "unsat"):
      text = "(set-logic QF_SLIA)\n" + sol.to_smt2()
      for name, cmd in (("cvc5", ["cvc5", "--strings-exp", "--tlimit=%d" % (self.cross_timeout_s * 1000)]),
                        ("z3-binary", ["/usr/bin/z3", "-T:%d" % self.cross_timeout_s])):
        v2 = self._second(name, cmd, text)
        self.queries += 1
        if v2 == verdict: self.cross_results[name]["agree"] += 1
        elif v2 == "unknown": self.cross_results[name]["unknown"] += 1
        else:
          self.disagreements.append("%s answered %s where z3 (API) answered %s" % (name, v2, verdict))
          return "unknown (solvers disagree: %s=%s, z3=%s)" % (name, v2, verdict), None
    if r == z3.sat:
      return "sat", sol.model()
    return verdict, None


def eval_in_model(expr_of_s, s, value):
  """evaluate the encoding on a concrete string (translation validation)"""
  r = z3.simplify(z3.substitute(expr_of_s, (s, z3.StringVal(value))))
  if z3.is_true(r): return True
  if z3.is_false(r): return False
  sol = z3.Solver(); sol.add(r)
  return sol.check() == z3.sat
