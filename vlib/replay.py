"""Native replay of a counterexample: runs the harness function on the concrete
arguments with the repository's own interpreter -- no CrossHair, no message
stub, no shims.  exit 1 = the violation reproduces, 0 = it does not, 2 = error
in the replay machinery itself."""
import importlib, json, os, sys, traceback

def main(path):
  rep = json.load(open(path))
  os.environ["VERIF_NATIVE"] = "1"
  if rep.get("tier"): os.environ["VERIF_TIER"] = rep["tier"]
  for k, v in (rep.get("env") or {}).items():
    os.environ[k] = str(v)
  modname = os.path.splitext(rep["module"])[0].replace(os.sep, ".")
  try:
    mod = importlib.import_module(modname)
    fname = rep["function"]
    if rep.get("kind") == "script":
      fname = "replay_" + fname
    fn = getattr(mod, fname)
  except Exception:
    traceback.print_exc()
    return 2
  def fix(v):   # JSON turns tuples into lists; harnesses accept both
    return v
  try:
    r = fn(*[fix(a) for a in rep.get("args", [])], **rep.get("kwargs", {}))
  except BaseException as e:
    print("REPRODUCED: %s(%s) raised %s: %s" % (rep["function"], ", ".join(map(repr, rep.get("args", []))),
                                                 type(e).__name__, str(e)[:300]))
    return 1
  if r is True:
    print("NOT-REPRODUCED: returned True")
    return 0
  print("REPRODUCED: %s(%s) returned %r" % (rep["function"], ", ".join(map(repr, rep.get("args", []))), r))
  return 1

if __name__ == "__main__":
  sys.exit(main(sys.argv[1]))
